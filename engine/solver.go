package main

import (
	"bufio"
	"fmt"
	"io"
	"os/exec"
	"strconv"
	"strings"
	"time"
)

// Solver is one persistent SMT solver process (z3 -in) driven with push/pop.
type Solver struct {
	cmd       *exec.Cmd
	in        *bufio.Writer
	inRaw     io.WriteCloser
	out       *bufio.Reader
	levels    []*level // one per push depth
	queries   int
	sat       int
	unsat     int
	dur       time.Duration
	timeoutMs int
	bin       string
}

type level struct {
	decl    map[string]bool
	defined map[uint64]bool
	lines   []string
}

type solverFail struct{ why string }

func NewSolver(bin string, timeoutMs int) *Solver {
	var cmd *exec.Cmd
	switch {
	case strings.Contains(bin, "cvc5"):
		cmd = exec.Command(bin, "--incremental", "--produce-models", "--lang=smt2", fmt.Sprintf("--tlimit-per=%d", timeoutMs))
	default:
		cmd = exec.Command(bin, "-in")
	}
	in, _ := cmd.StdinPipe()
	outp, _ := cmd.StdoutPipe()
	if err := cmd.Start(); err != nil {
		panic(err)
	}
	s := &Solver{cmd: cmd, inRaw: in, in: bufio.NewWriterSize(in, 1<<16), out: bufio.NewReader(outp), timeoutMs: timeoutMs, bin: bin}
	s.levels = []*level{newLevel()}
	if strings.Contains(bin, "cvc5") {
		s.raw("(set-logic ALL)")
	} else {
		s.raw("(set-option :produce-models true)")
		s.raw(fmt.Sprintf("(set-option :timeout %d)", timeoutMs))
	}
	return s
}

func newLevel() *level { return &level{decl: map[string]bool{}, defined: map[uint64]bool{}} }

func (s *Solver) Close() {
	s.raw("(exit)")
	s.in.Flush()
	s.inRaw.Close()
	s.cmd.Wait()
}

func (s *Solver) raw(l string) {
	s.in.WriteString(l)
	s.in.WriteByte('\n')
}

func (s *Solver) send(l string) {
	s.raw(l)
	top := s.levels[len(s.levels)-1]
	top.lines = append(top.lines, l)
}

func (s *Solver) isDeclared(name string) bool {
	for _, l := range s.levels {
		if l.decl[name] {
			return true
		}
	}
	return false
}

func (s *Solver) Declare(name string, w int) {
	if s.isDeclared(name) {
		return
	}
	s.levels[len(s.levels)-1].decl[name] = true
	s.send(fmt.Sprintf("(declare-const %s %s)", name, sortOf(w)))
}

func (s *Solver) isDefined(id uint64) bool {
	for _, l := range s.levels {
		if l.defined[id] {
			return true
		}
	}
	return false
}

const nameThreshold = 12

func (s *Solver) nameFor(t *Term) string {
	if t.size < nameThreshold || t.id == 0 {
		return ""
	}
	if !s.isDefined(t.id) {
		s.define(t)
	}
	return "t!" + strconv.FormatUint(t.id, 10)
}

func (s *Solver) define(t *Term) {
	var sb strings.Builder
	fmt.Fprintf(&sb, "(define-fun t!%d () %s ", t.id, sortOf(t.width))
	t.render(&sb, s.nameFor, true)
	sb.WriteString(")")
	s.levels[len(s.levels)-1].defined[t.id] = true
	s.send(sb.String())
}

func (s *Solver) termString(t *Term) string {
	if n := s.nameFor(t); n != "" {
		return n
	}
	var sb strings.Builder
	t.render(&sb, s.nameFor, true)
	return sb.String()
}

func (s *Solver) Push() {
	s.send("(push 1)")
	s.levels = append(s.levels, newLevel())
}
func (s *Solver) Pop() {
	s.levels = s.levels[:len(s.levels)-1]
	s.send("(pop 1)")
	// drop the matching push line and this pop from the transcript of the enclosing level
	top := s.levels[len(s.levels)-1]
	n := len(top.lines)
	if n >= 2 && top.lines[n-2] == "(push 1)" {
		top.lines = top.lines[:n-2]
	}
}
func (s *Solver) Assert(t *Term) {
	if t.isTrue() {
		return
	}
	s.send("(assert " + s.termString(t) + ")")
}

// Transcript returns every line currently in force (declarations, definitions, assertions).
func (s *Solver) Transcript() []string {
	var out []string
	for _, l := range s.levels {
		out = append(out, l.lines...)
	}
	return out
}

func (s *Solver) readLine() string {
	s.in.Flush()
	line, err := s.out.ReadString('\n')
	if err != nil {
		panic(solverFail{"solver pipe: " + err.Error()})
	}
	return strings.TrimSpace(line)
}

func (s *Solver) Check() string {
	t0 := time.Now()
	s.raw("(check-sat)")
	line := s.readLine()
	s.queries++
	s.dur += time.Since(t0)
	switch line {
	case "sat":
		s.sat++
	case "unsat":
		s.unsat++
	default:
		// unknown / timeout / (error ...) are all inconclusive
		panic(solverFail{"solver answered: " + line})
	}
	return line
}

// Feasible: is pc ∧ c satisfiable (pc already asserted).
func (s *Solver) Feasible(c *Term) bool {
	if c.isTrue() {
		return true
	}
	if c.isFalse() {
		return false
	}
	s.Push()
	s.Assert(c)
	r := s.Check()
	s.Pop()
	return r == "sat"
}

// Model returns values of the named variables (bools as 0/1). Must follow a sat Check.
func (s *Solver) Model(names []string) map[string]uint64 {
	res := map[string]uint64{}
	if len(names) == 0 {
		return res
	}
	for start := 0; start < len(names); start += 200 {
		end := start + 200
		if end > len(names) {
			end = len(names)
		}
		s.raw("(get-value (" + strings.Join(names[start:end], " ") + "))")
		s.in.Flush()
		var sb strings.Builder
		depth := 0
		started := false
		for {
			b, err := s.out.ReadByte()
			if err != nil {
				panic(solverFail{"solver pipe (model): " + err.Error()})
			}
			sb.WriteByte(b)
			if b == '(' {
				depth++
				started = true
			}
			if b == ')' {
				depth--
			}
			if started && depth == 0 {
				break
			}
		}
		s.out.ReadString('\n')
		txt := sb.String()
		if strings.Contains(txt, "(error") {
			panic(solverFail{"solver model error: " + txt})
		}
		parseModel(txt, res)
	}
	return res
}

func parseModel(txt string, res map[string]uint64) {
	// ((name value) (name value) ...)
	f := strings.Fields(strings.NewReplacer("(", " ( ", ")", " ) ").Replace(txt))
	for i := 0; i+2 < len(f); i++ {
		if f[i] == "(" && f[i+1] != "(" && f[i+2] != "(" && f[i+2] != ")" {
			name, val := f[i+1], f[i+2]
			switch {
			case val == "true":
				res[name] = 1
			case val == "false":
				res[name] = 0
			case strings.HasPrefix(val, "#x"):
				v, _ := strconv.ParseUint(val[2:], 16, 64)
				res[name] = v
			case strings.HasPrefix(val, "#b"):
				v, _ := strconv.ParseUint(val[2:], 2, 64)
				res[name] = v
			}
		}
	}
}

// ValueOf returns the model value of a term (must follow a sat Check).
func (s *Solver) ValueOf(t *Term) uint64 {
	if t.IsConst() {
		return t.val
	}
	str := s.termString(t)
	s.raw("(get-value (" + str + "))")
	s.in.Flush()
	var sb strings.Builder
	depth := 0
	started := false
	for {
		b, err := s.out.ReadByte()
		if err != nil {
			panic(solverFail{"solver pipe (value): " + err.Error()})
		}
		sb.WriteByte(b)
		if b == '(' {
			depth++
			started = true
		}
		if b == ')' {
			depth--
		}
		if started && depth == 0 {
			break
		}
	}
	s.out.ReadString('\n')
	txt := sb.String()
	if strings.Contains(txt, "(error") {
		panic(solverFail{"solver value error: " + txt})
	}
	// ((<term> <value>)): the value is the last token
	f := strings.Fields(strings.NewReplacer("(", " ( ", ")", " ) ").Replace(txt))
	for i := len(f) - 1; i >= 0; i-- {
		v := f[i]
		switch {
		case strings.HasPrefix(v, "#x"):
			n, _ := strconv.ParseUint(v[2:], 16, 64)
			return n
		case strings.HasPrefix(v, "#b"):
			n, _ := strconv.ParseUint(v[2:], 2, 64)
			return n
		case v == "true":
			return 1
		case v == "false":
			return 0
		}
	}
	panic(solverFail{"solver value parse: " + txt})
}
