package main

import (
	"crypto/sha256"
	"encoding/json"
	"fmt"
	"os"
	"os/exec"
	"path/filepath"
	"regexp"
	"runtime"
	"sort"
	"strconv"
	"strings"
	"time"

	"golang.org/x/tools/go/ssa"
)

var verifRoot = "/verif"
var repoRoot = "/repo"

type TierSpec struct {
	Harnesses []HarnessSpec `json:"harnesses"`
	BudgetS   int           `json:"budget_s"`
	Witnesses int           `json:"witnesses"`
	Bounds    string        `json:"bounds"`
	Preempt   int           `json:"preempt"`
	PermLimit int           `json:"perm_limit"`
	PoolAdv   bool          `json:"pool_adversarial"`
	LockCheck bool          `json:"lock_check"`
	RaceCheck bool          `json:"race_check"`
	MaxAlloc  int           `json:"max_alloc"`
}

type CheckSpec struct {
	ID          string    `json:"id"`
	Pkgs        []string  `json:"pkgs"`
	Quick       TierSpec  `json:"quick"`
	Thorough    *TierSpec `json:"thorough"`
	Outside     []string  `json:"outside_bounds"`
	Stubs       []string  `json:"stubs"`
	Assumptions []string  `json:"assumptions"`
	Trusted     []string  `json:"trusted_base"`
	Technique   string    `json:"technique"`
}

type KnownFinding struct {
	Property string `json:"property"`
	Kind     string `json:"kind"` // known | fixed
	Harness  string `json:"harness"`
	Label    string `json:"label"`
	What     string `json:"what"`
	Commit   string `json:"commit,omitempty"`
}

func main() {
	if len(os.Args) < 2 {
		fmt.Fprintln(os.Stderr, "usage: symgo check <ID> <quick|thorough> | replay <replays/ID/file.json> | run <pkgdir> <Fn> [k=v...] | selftest")
		os.Exit(2)
	}
	if v := os.Getenv("VERIF_ROOT"); v != "" {
		verifRoot = v
	}
	if v := os.Getenv("VERIF_REPO"); v != "" {
		repoRoot = v
	}
	switch os.Args[1] {
	case "check":
		tier := "quick"
		if len(os.Args) > 3 {
			tier = os.Args[3]
		}
		if t := os.Getenv("VERIF_TIER"); t != "" && len(os.Args) <= 3 {
			tier = t
		}
		os.Exit(runCheck(os.Args[2], tier))
	case "replay":
		os.Exit(runReplay(os.Args[2]))
	case "run":
		os.Exit(runDev(os.Args[2:]))
	case "selftest":
		os.Exit(selftest())
	}
	fmt.Fprintln(os.Stderr, "unknown command")
	os.Exit(2)
}

func pkgNameOfDir(dir string) string {
	files, _ := filepath.Glob(filepath.Join(repoRoot, dir, "*.go"))
	re := regexp.MustCompile(`(?m)^package\s+(\w+)`)
	for _, f := range files {
		if strings.HasSuffix(f, "_test.go") {
			continue
		}
		b, err := os.ReadFile(f)
		if err != nil {
			continue
		}
		if m := re.FindSubmatch(b); m != nil {
			return string(m[1])
		}
	}
	return filepath.Base(dir)
}

func harnessDirFor(pkgdir string) string {
	d := strings.TrimPrefix(pkgdir, "./")
	if d == "." || d == "" {
		d = "root"
	}
	return filepath.Join(verifRoot, "harness", strings.ReplaceAll(d, "/", "_"))
}

// buildOverlay returns the in-memory overlay for the loader and the path map for `go test -overlay`.
func buildOverlay(pkgdirs []string, tmp string) (map[string][]byte, map[string]string, error) {
	ov := map[string][]byte{}
	paths := map[string]string{}
	tmpl, err := os.ReadFile(filepath.Join(verifRoot, "harness/_tmpl/vrt.go.tmpl"))
	if err != nil {
		return nil, nil, err
	}
	// a harness directory may name, in a file DEPS, other package directories whose harness files its own
	// files import (e.g. the root harness uses the exports of the listeners harness): they are overlaid too
	seen := map[string]bool{}
	for _, pd := range pkgdirs {
		seen[pd] = true
	}
	for i := 0; i < len(pkgdirs); i++ {
		b, err := os.ReadFile(filepath.Join(harnessDirFor(pkgdirs[i]), "DEPS"))
		if err != nil {
			continue
		}
		for _, d := range strings.Fields(string(b)) {
			if !seen[d] {
				seen[d] = true
				pkgdirs = append(pkgdirs, d)
			}
		}
	}
	for _, pd := range pkgdirs {
		name := pkgNameOfDir(pd)
		hd := harnessDirFor(pd)
		files, _ := filepath.Glob(filepath.Join(hd, "*.go"))
		sort.Strings(files)
		for _, f := range files {
			b, err := os.ReadFile(f)
			if err != nil {
				return nil, nil, err
			}
			dst := filepath.Join(repoRoot, pd, "zz_verif_"+filepath.Base(f))
			ov[dst] = b
			paths[dst] = f
		}
		vrt := []byte(strings.ReplaceAll(string(tmpl), "PKGNAME", name))
		dst := filepath.Join(repoRoot, pd, "zz_verif_vrt.go")
		ov[dst] = vrt
		if tmp != "" {
			real := filepath.Join(tmp, "vrt_"+sanitize(pd)+".go")
			os.WriteFile(real, vrt, 0o644)
			paths[dst] = real
		}
	}
	return ov, paths, nil
}

func loadKnown(id string) (map[string]bool, []KnownFinding) {
	var all []KnownFinding
	b, err := os.ReadFile(filepath.Join(verifRoot, "known_findings.json"))
	if err == nil {
		if err := json.Unmarshal(b, &all); err != nil {
			fmt.Fprintln(os.Stderr, "known_findings.json:", err)
			os.Exit(2)
		}
	}
	m := map[string]bool{}
	var mine []KnownFinding
	for _, k := range all {
		if k.Property == id {
			mine = append(mine, k)
			if k.Kind == "known" {
				m[k.Harness+"/"+k.Label] = true
			}
		}
	}
	return m, mine
}

func envInt(name string, def int) int {
	if v := os.Getenv(name); v != "" {
		if n, err := strconv.Atoi(v); err == nil {
			return n
		}
	}
	return def
}

type replayResult struct {
	Harness  string              `json:"harness"`
	Failed   string              `json:"failed"`
	Panic    string              `json:"panic"`
	Desync   string              `json:"desync"`
	Timeout  bool                `json:"timeout"`
	Observes map[string][]uint64 `json:"observes"`
	Reached  map[string]int      `json:"reached"`
}

type replayCase struct {
	name    string
	pkgdir  string
	harness string
	script  []interface{}
	params  map[string]int
	out     *replayResult
}

func scriptJSON(script []interface{}) []map[string]interface{} {
	var out []map[string]interface{}
	for _, e := range script {
		m := e.(map[string]interface{})
		n := map[string]interface{}{"k": m["k"]}
		switch v := m["v"].(type) {
		case []int:
			n["v"] = v
		case uint64:
			n["v"] = strconv.FormatUint(v, 10)
		case int64:
			n["v"] = strconv.FormatInt(v, 10)
		case int:
			n["v"] = strconv.Itoa(v)
		default:
			n["v"] = v
		}
		out = append(out, n)
	}
	return out
}

// runNative executes replay cases against the real build (go test -overlay), grouped by package.
func runNative(cases []*replayCase, sh *Shared, pathMap map[string]string, tmp string, allHarness map[string][]string) error {
	byPkg := map[string][]*replayCase{}
	for _, c := range cases {
		byPkg[c.pkgdir] = append(byPkg[c.pkgdir], c)
	}
	testTmpl, err := os.ReadFile(filepath.Join(verifRoot, "harness/_tmpl/replay_test.go.tmpl"))
	if err != nil {
		return err
	}
	for pd, cs := range byPkg {
		dir := filepath.Join(tmp, "replay_"+sanitize(pd))
		os.MkdirAll(dir, 0o755)
		for i, c := range cs {
			c.name = fmt.Sprintf("%04d", i)
			data, _ := json.Marshal(map[string]interface{}{"harness": c.harness, "script": scriptJSON(c.script), "params": c.params})
			os.WriteFile(filepath.Join(dir, c.name+".in.json"), data, 0o644)
		}
		var reg strings.Builder
		for _, h := range allHarness[pd] {
			fmt.Fprintf(&reg, "\t%q: %s,\n", h, h)
		}
		src := strings.ReplaceAll(string(testTmpl), "PKGNAME", pkgNameOfDir(pd))
		src = strings.ReplaceAll(src, "REGISTRY", reg.String())
		testReal := filepath.Join(tmp, "replay_test_"+sanitize(pd)+".go")
		os.WriteFile(testReal, []byte(src), 0o644)
		repl := map[string]string{}
		for k, v := range pathMap {
			repl[k] = v
		}
		repl[filepath.Join(repoRoot, pd, "zz_verif_replay_test.go")] = testReal
		ovData, _ := json.Marshal(map[string]interface{}{"Replace": repl})
		ovFile := filepath.Join(tmp, "overlay_"+sanitize(pd)+".json")
		os.WriteFile(ovFile, ovData, 0o644)
		args := []string{"test", "-vet=off", "-count=1", "-timeout", "600s", "-run", "^TestVerifReplay$", "-overlay", ovFile}
		if nativeRaceFlag {
			args = append(args, "-race")
		}
		cmd := exec.Command("go", append(args, ".")...)
		cmd.Dir = filepath.Join(repoRoot, pd)
		// scratch files of the replayed code (real databases of the storage back ends) are removed with tmp
		os.MkdirAll(filepath.Join(dir, "tmp"), 0o755)
		cmd.Env = append(os.Environ(), "VERIF_REPLAY_DIR="+dir, "TMPDIR="+filepath.Join(dir, "tmp"), "GOFLAGS=-mod=mod", "GOPROXY=off", "GOSUMDB=off", "GOTOOLCHAIN=local")
		out, err := cmd.CombinedOutput()
		nativeLastOutput = string(out)
		if err != nil && !(nativeRaceFlag && strings.Contains(string(out), "DATA RACE")) {
			return fmt.Errorf("native replay build/run failed in %s: %v\n%s", pd, err, tail(string(out), 3000))
		}
		for _, c := range cs {
			b, err := os.ReadFile(filepath.Join(dir, c.name+".out.json"))
			if err != nil {
				return fmt.Errorf("native replay produced no output for %s: %s", c.harness, tail(string(out), 2000))
			}
			c.out = &replayResult{}
			json.Unmarshal(b, c.out)
		}
	}
	return nil
}

// runReplay re-runs a recorded counterexample (replays/<id>/<harness>__<label>.json) against the real build of
// /repo's current tree: the harness is compiled natively (go test -overlay) and driven by the recorded script.
// Exit 1 and a "REPRODUCED" line when the recorded violation shows again, exit 0 when it does not (e.g. after
// the defect was repaired), exit 2 when the replay could not be run or is not natively replayable.
func runReplay(path string) int {
	b, err := os.ReadFile(path)
	if err != nil {
		fmt.Fprintln(os.Stderr, "replay:", err)
		return 2
	}
	var r struct {
		Property string                   `json:"property"`
		Harness  string                   `json:"harness"`
		Pkg      string                   `json:"pkg"`
		Label    string                   `json:"label"`
		Kind     string                   `json:"kind"`
		Script   []map[string]interface{} `json:"script"`
		Params   map[string]int           `json:"params"`
	}
	if err := json.Unmarshal(b, &r); err != nil {
		fmt.Fprintln(os.Stderr, "replay:", err)
		return 2
	}
	if r.Kind == "lock" {
		fmt.Println("NOT-REPLAYABLE: a lock-discipline finding is a fact about an explored path (lock tracker), not a native failure")
		return 2
	}
	spec, err := loadSpec(r.Property)
	if err != nil {
		fmt.Fprintln(os.Stderr, "replay:", err)
		return 2
	}
	os.MkdirAll(filepath.Join(verifRoot, ".scratch"), 0o755)
	tmp, err := os.MkdirTemp(filepath.Join(verifRoot, ".scratch"), "replay-")
	if err != nil {
		fmt.Fprintln(os.Stderr, "replay:", err)
		return 2
	}
	defer os.RemoveAll(tmp)
	_, pathMap, err := buildOverlay(spec.Pkgs, tmp)
	if err != nil {
		fmt.Fprintln(os.Stderr, "replay:", err)
		return 2
	}
	pd := r.Pkg
	if pd == "" {
		pd = spec.Pkgs[0]
	}
	script := make([]interface{}, len(r.Script))
	for i, e := range r.Script {
		script[i] = e
	}
	one := []*replayCase{{pkgdir: pd, harness: r.Harness, script: script, params: r.Params}}
	nativeRaceFlag = r.Kind == "race"
	if err := runNative(one, nil, pathMap, tmp, map[string][]string{pd: {r.Harness}}); err != nil {
		fmt.Fprintln(os.Stderr, "replay:", err)
		return 2
	}
	o := one[0].out
	fmt.Printf("native replay of %s/%s: failed=%q panic=%q timeout=%v desync=%q\n", r.Harness, r.Label, o.Failed, o.Panic, o.Timeout, o.Desync)
	switch {
	case r.Kind == "assert" && o.Failed == r.Label, r.Kind == "panic" && o.Panic != "", r.Kind == "nonterm" && o.Timeout:
		fmt.Printf("REPRODUCED property=%s %s/%s\n", r.Property, r.Harness, r.Label)
		return 1
	case r.Kind == "race" && strings.Contains(nativeLastOutput, "DATA RACE"):
		fmt.Printf("REPRODUCED property=%s %s/%s (Go race detector)\n", r.Property, r.Harness, r.Label)
		return 1
	case strings.Contains(o.Desync, "engine-only"):
		fmt.Println("NOT-REPLAYABLE: the counterexample uses an engine-only facility (" + o.Desync + ")")
		return 2
	}
	fmt.Println("NOT-REPRODUCED on the current tree (schedule-dependent counterexamples may need several attempts)")
	return 0
}

// nativeRaceFlag makes runNative build and run the replay under the Go race detector; nativeLastOutput keeps
// the test output of the last native run (the detector's reports are read from it).
var nativeRaceFlag bool
var nativeLastOutput string

// raceConfirm replays a race counterexample natively under `go test -race` a few times and looks for a report
// of the Go race detector that names both functions of the engine's report.
func raceConfirm(c *replayCase, v *Violation, sh *Shared, pathMap map[string]string, tmp string, allHarness map[string][]string) string {
	names := []string{}
	if i := strings.LastIndex(v.Label, ":"); i >= 0 {
		for _, f := range strings.Split(v.Label[i+1:], "|") {
			// (*mochi.Client).Stop -> Stop ; mochi.(*Server).x$1 -> x
			f = strings.TrimRight(f, "$0123456789")
			if j := strings.LastIndex(f, "."); j >= 0 {
				f = f[j+1:]
			}
			names = append(names, f)
		}
	}
	nativeRaceFlag = true
	defer func() { nativeRaceFlag = false }()
	tries := 3
	for t := 0; t < tries; t++ {
		one := []*replayCase{{pkgdir: c.pkgdir, harness: c.harness, script: c.script, params: c.params}}
		if err := runNative(one, sh, pathMap, tmp, allHarness); err != nil {
			return "race-detector replay could not be built or run: " + tail(err.Error(), 200)
		}
		out := nativeLastOutput
		for _, rep := range strings.Split(out, "WARNING: DATA RACE")[1:] {
			all := true
			for _, n := range names {
				if !strings.Contains(rep, "."+n+"(") && !strings.Contains(rep, ")."+n+"(") {
					all = false
				}
			}
			if all {
				return "confirmed by the Go race detector (go test -race replay)"
			}
		}
	}
	return fmt.Sprintf("not observed by the Go race detector in %d native replays (schedule-dependent); engine evidence: the two accesses and the vector clocks of the path", tries)
}

func tail(s string, n int) string {
	if len(s) > n {
		return s[len(s)-n:]
	}
	return s
}

func hasEngineOnly(script []interface{}, kinds ...string) bool {
	for _, e := range script {
		k := e.(map[string]interface{})["k"].(string)
		for _, w := range kinds {
			if k == w {
				return true
			}
		}
	}
	return false
}

func srcHash(prog *ssa.Program, fn *ssa.Function) string {
	if fn.Syntax() == nil {
		return ""
	}
	p0 := prog.Fset.Position(fn.Syntax().Pos())
	p1 := prog.Fset.Position(fn.Syntax().End())
	b, err := os.ReadFile(p0.Filename)
	if err != nil || p1.Offset > len(b) {
		return ""
	}
	h := sha256.Sum256(b[p0.Offset:p1.Offset])
	return fmt.Sprintf("%x", h[:8])
}

func ninstr(fn *ssa.Function) int {
	n := 0
	for _, b := range fn.Blocks {
		n += len(b.Instrs)
	}
	return n
}

func loadSpec(id string) (*CheckSpec, error) {
	specData, err := os.ReadFile(filepath.Join(verifRoot, "checks", id+".json"))
	if err != nil {
		return nil, err
	}
	var spec CheckSpec
	if err := json.Unmarshal(specData, &spec); err != nil {
		return nil, err
	}
	return &spec, nil
}

func runCheck(id, tier string) int {
	t0 := time.Now()
	specData, err := os.ReadFile(filepath.Join(verifRoot, "checks", id+".json"))
	if err != nil {
		fmt.Fprintln(os.Stderr, "no check spec:", err)
		return 2
	}
	var spec CheckSpec
	if err := json.Unmarshal(specData, &spec); err != nil {
		fmt.Fprintln(os.Stderr, "bad check spec:", err)
		return 2
	}
	ts := spec.Quick
	if tier == "thorough" && spec.Thorough != nil {
		ts = *spec.Thorough
	}
	if tier != "thorough" {
		tier = "quick"
	}
	seed := int64(envInt("VERIF_SEED", 1))
	tmp, err := os.MkdirTemp(filepath.Join(verifRoot, ".scratch"), id+"-")
	if err != nil {
		os.MkdirAll(filepath.Join(verifRoot, ".scratch"), 0o755)
		tmp, err = os.MkdirTemp(filepath.Join(verifRoot, ".scratch"), id+"-")
		if err != nil {
			fmt.Fprintln(os.Stderr, err)
			return 2
		}
	}
	defer os.RemoveAll(tmp)
	overlay, pathMap, err := buildOverlay(spec.Pkgs, tmp)
	if err != nil {
		fmt.Fprintln(os.Stderr, err)
		return 2
	}
	sh, err := loadProgram(repoRoot, spec.Pkgs, overlay)
	if err != nil {
		fmt.Fprintln(os.Stderr, "BROKEN: load:", err)
		return 2
	}
	sh.solverBin = "z3"
	sh.solverTimeoutMs = 10000
	if tier == "thorough" {
		sh.solverTimeoutMs = 60000
	}
	sh.seed = seed
	sh.trackFuncs = true
	sh.logSmt = true
	sh.smtDir = filepath.Join(verifRoot, "evidence", "smt", id)
	os.RemoveAll(sh.smtDir)
	known, mine := loadKnown(id)
	sh.known = known
	if ts.PermLimit > 0 {
		sh.permLimit = ts.PermLimit
	}
	if ts.MaxAlloc > 0 {
		sh.maxAlloc = ts.MaxAlloc
	}
	sh.preempt = ts.Preempt
	sh.poolAdversarial = ts.PoolAdv
	sh.lockCheck = ts.LockCheck
	sh.raceCheck = ts.RaceCheck
	sh.ignoreAsserts = ts.LockCheck // the lock check borrows other harnesses for their paths only
	var targets []*ssa.Package
	for _, pd := range spec.Pkgs {
		if p := sh.spkgs[pkgPathOf(pd)]; p != nil {
			targets = append(targets, p)
		}
	}
	if err := sh.buildSnapshot(targets); err != nil {
		fmt.Fprintln(os.Stderr, "BROKEN:", err)
		return 2
	}
	nworkers := envInt("VERIF_WORKERS", runtime.NumCPU())
	budget := ts.BudgetS
	if budget == 0 {
		budget = 300
	}
	deadline := time.Now().Add(time.Duration(budget) * time.Second)
	wcap := ts.Witnesses
	if wcap == 0 {
		wcap = 8
	}
	var results []*HarnessResult
	broken := []string{}
	for _, hs := range ts.Harnesses {
		if hs.Pkg == "" {
			hs.Pkg = spec.Pkgs[0]
		}
		hr, err := sh.runHarness(hs, nworkers, wcap, deadline)
		if err != nil {
			fmt.Fprintln(os.Stderr, "BROKEN:", err)
			return 2
		}
		results = append(results, hr)
		fmt.Fprintf(os.Stderr, "[%s] %s: paths=%d completed=%d decisions=%d queries=%d solver=%.1fs wall=%.1fs aborts=%v inconclusive=%d violations=%d\n", id, hs.Fn, hr.Paths, hr.Completed, hr.Decisions, hr.Queries, hr.SolverDur.Seconds(), hr.Wall.Seconds(), hr.Aborts, len(hr.Inconcl), len(hr.Violations))
		for k, n := range hr.Inconcl {
			broken = append(broken, fmt.Sprintf("%s: %s (x%d)", hs.Fn, k, n))
		}
	}
	// harness registry for native replay
	allHarness := map[string][]string{}
	for _, pd := range spec.Pkgs {
		sp := sh.spkgs[pkgPathOf(pd)]
		if sp == nil {
			continue
		}
		for name, m := range sp.Members {
			if fn, ok := m.(*ssa.Function); ok && strings.HasPrefix(name, "Verif") && fn.Signature.Params().Len() == 0 && fn.Signature.Results().Len() == 0 {
				allHarness[pd] = append(allHarness[pd], name)
			}
		}
		sort.Strings(allHarness[pd])
	}
	// native replay: violations + witnesses
	var cases []*replayCase
	type violRef struct {
		hr *HarnessResult
		v  *Violation
		c  *replayCase
	}
	var viols []*violRef
	witnessCases := map[*replayCase]*Witness{}
	for _, hr := range results {
		keys := []string{}
		for k := range hr.Violations {
			keys = append(keys, k)
		}
		sort.Strings(keys)
		for _, k := range keys {
			v := hr.Violations[k]
			vr := &violRef{hr: hr, v: v}
			if v.Script != nil || v.Kind == "lock" {
				vr.c = &replayCase{pkgdir: hr.Spec.Pkg, harness: hr.Spec.Fn, script: v.Script, params: hr.Spec.Params}
				if v.Kind == "race" {
					// replayed separately under the Go race detector (go test -race)
				} else if v.Kind != "lock" {
					cases = append(cases, vr.c)
				} else {
					vr.c = nil
				}
			}
			viols = append(viols, vr)
		}
		for _, w := range hr.Witnesses {
			c := &replayCase{pkgdir: hr.Spec.Pkg, harness: hr.Spec.Fn, script: w.Script, params: hr.Spec.Params}
			cases = append(cases, c)
			witnessCases[c] = w
		}
	}
	validated, mismatches := 0, []string{}
	if len(cases) > 0 && os.Getenv("VERIF_NO_REPLAY") == "" {
		if err := runNative(cases, sh, pathMap, tmp, allHarness); err != nil {
			fmt.Fprintln(os.Stderr, "BROKEN:", err)
			return 2
		}
		for c, w := range witnessCases {
			o := c.out
			// the native side runs real goroutines against wall-clock sleeps: a witness that does not reproduce is
			// replayed again (alone) before it counts as a disagreement between engine and implementation
			for try := 0; try < 2 && (o.Desync != "" || o.Timeout || o.Failed != "" || o.Panic != ""); try++ {
				one := []*replayCase{{pkgdir: c.pkgdir, harness: c.harness, script: c.script, params: c.params}}
				if err := runNative(one, sh, pathMap, tmp, allHarness); err != nil {
					break
				}
				o = one[0].out
				c.out = o
			}
			if o.Desync != "" || o.Timeout || o.Failed != "" || o.Panic != "" {
				if hasEngineOnly(w.Script, "maporder", "sched", "preempt", "select", "pool") {
					continue // order-dependent path: native run may legitimately take another path
				}
				if strings.Contains(o.Desync, "engine-only") {
					continue // the path uses a facility only the engine has (model clock advance, abstract store)
				}
				mismatches = append(mismatches, fmt.Sprintf("witness %s trail=%v: native desync=%q failed=%q panic=%q timeout=%v", c.harness, w.Trail, o.Desync, o.Failed, o.Panic, o.Timeout))
				continue
			}
			ok := true
			for k, vals := range w.Observes {
				nv, has := o.Observes[k]
				if !has || fmt.Sprint(nv) != fmt.Sprint(vals) {
					ok = false
					if !hasEngineOnly(w.Script, "maporder", "sched", "preempt", "select", "pool") {
						mismatches = append(mismatches, fmt.Sprintf("witness %s trail=%v: observe %s engine=%v native=%v", c.harness, w.Trail, k, vals, nv))
					}
				}
			}
			if ok {
				validated++
			}
		}
	}
	// classify violations
	exit := 0
	kfPrinted := map[string]bool{}
	var sampleViol []map[string]interface{}
	nviol := 0
	var lockEdgeList map[string]string
	plantedFound := map[string]bool{}
	for _, vr := range viols {
		v := vr.v
		if v.Kind == "race" && vr.hr.Spec.Params["RACE_HARNESS"] == 1 {
			// the control harness plants a race in its own code: finding it shows the analysis is alive
			plantedFound[vr.hr.Spec.Fn] = true
			continue
		}
		isKnown := known[v.Harness+"/"+v.Label]
		status := "confirmed"
		if vr.c != nil && vr.c.out != nil {
			o := vr.c.out
			repro := (v.Kind == "assert" && o.Failed == v.Label) || (v.Kind == "panic" && o.Panic != "") || (v.Kind == "nonterm" && o.Timeout)
			if !repro && hasEngineOnly(v.Script, "maporder", "select", "pool") {
				// Go's map order is random: retry natively
				for try := 0; try < 40 && !repro; try++ {
					one := []*replayCase{{pkgdir: vr.c.pkgdir, harness: vr.c.harness, script: vr.c.script, params: vr.c.params}}
					if err := runNative(one, sh, pathMap, tmp, allHarness); err != nil {
						break
					}
					o = one[0].out
					repro = (v.Kind == "assert" && o.Failed == v.Label) || (v.Kind == "panic" && o.Panic != "") || (v.Kind == "nonterm" && o.Timeout)
				}
			}
			if !repro && strings.Contains(o.Desync, "engine-only") {
				// the counterexample goes through a stub with no native counterpart (abstract storage crash)
				status = "not natively replayable: depends on an engine-only facility (" + o.Desync + ")"
			} else if !repro {
				status = "not-reproduced"
				if hasEngineOnly(v.Script, "sched", "preempt", "clock") && !hasEngineOnly(v.Script, "nothing") && v.Kind == "assert" && (hasEngineOnly(v.Script, "sched", "preempt")) {
					status = "schedule-dependent (not natively replayable without yield hooks)"
				} else {
					mismatches = append(mismatches, fmt.Sprintf("violation %s/%s not reproduced natively: failed=%q panic=%q desync=%q", v.Harness, v.Label, o.Failed, o.Panic, o.Desync))
				}
			}
		} else if v.Kind == "race" {
			status = "happens-before analysis of the explored path"
			if vr.c != nil && os.Getenv("VERIF_NO_REPLAY") == "" && !isKnown {
				status = raceConfirm(vr.c, v, sh, pathMap, tmp, allHarness)
			}
		} else if v.Kind == "lock" {
			status = "path-fact (lock tracker)"
		} else if os.Getenv("VERIF_NO_REPLAY") != "" {
			status = "replay skipped"
		}
		what := v.Msg
		for _, k := range mine {
			if k.Harness == v.Harness && k.Label == v.Label {
				what = k.What
			}
		}
		sv := map[string]interface{}{"harness": v.Harness, "label": v.Label, "kind": v.Kind, "script": scriptJSON(v.Script), "decisions": v.Trail, "native": status, "stack": v.Stack, "paths_hitting": vr.hr.ViolCount[v.Kind+":"+v.Label]}
		if status == "not-reproduced" {
			continue
		}
		if isKnown {
			if !kfPrinted[v.Harness+"/"+v.Label] {
				kfPrinted[v.Harness+"/"+v.Label] = true
				fmt.Printf("KNOWN-FINDING: property=%s %s [%s/%s]\n", id, what, v.Harness, v.Label)
			}
			sv["outcome"] = "KNOWN-FINDING"
			sampleViol = append(sampleViol, sv)
			continue
		}
		// new violation: write replay file
		nviol++
		rdir := filepath.Join(verifRoot, "replays", id)
		os.MkdirAll(rdir, 0o755)
		rfile := filepath.Join(rdir, fmt.Sprintf("%s__%s.json", v.Harness, sanitize(v.Label)))
		data, _ := json.MarshalIndent(map[string]interface{}{"property": id, "harness": v.Harness, "pkg": vr.hr.Spec.Pkg, "label": v.Label, "kind": v.Kind, "message": v.Msg, "script": scriptJSON(v.Script), "params": vr.hr.Spec.Params, "decisions": v.Trail, "stack": v.Stack, "native": status,
			"how_to_replay": "symgo replay " + rfile}, "", " ")
		os.WriteFile(rfile, data, 0o644)
		if len(v.Smt) > 0 {
			writeSmt(sh.smtDir, fmt.Sprintf("%s__%s__sat.smt2", v.Harness, sanitize(v.Label)), v.Smt, "sat")
		}
		fmt.Printf("VIOLATION property=%s replay=%s\n", id, rfile)
		fmt.Printf("  %s/%s: %s (native: %s)\n", v.Harness, v.Label, v.Msg, status)
		sv["outcome"] = "VIOLATION"
		sampleViol = append(sampleViol, sv)
		exit = 1
	}
	// lock order (C32): two lock classes acquired in opposite orders on two explored paths
	if sh.lockCheck {
		edges := map[string]string{}
		for _, hr := range results {
			for e, site := range hr.LockEdges {
				edges[e] = hr.Spec.Fn + " @ " + site
			}
		}
		for e, site := range edges {
			p := strings.SplitN(e, " -> ", 2)
			if len(p) == 2 && p[0] < p[1] {
				if site2, ok := edges[p[1]+" -> "+p[0]]; ok {
					label := "lock-order:" + p[0] + "<->" + p[1]
					if known["*/"+label] {
						fmt.Printf("KNOWN-FINDING: property=%s opposite lock orders %s (%s) and the reverse (%s)\n", id, e, site, site2)
					} else {
						fmt.Printf("VIOLATION property=%s replay=%s\n  locks %s and %s are acquired in opposite orders: %s / %s\n", id, filepath.Join(verifRoot, "evidence", id+".json"), p[0], p[1], site, site2)
						exit = 1
						nviol++
					}
				}
			}
		}
		lockEdgeList = edges
		_ = lockEdgeList
	}
	// vacuity: every harness must have completed paths, every reach label present
	for _, hr := range results {
		if hr.Completed == 0 && len(hr.Violations) == 0 {
			broken = append(broken, hr.Spec.Fn+": no path completed (vacuous harness)")
		}
		if len(hr.Reach) == 0 {
			broken = append(broken, hr.Spec.Fn+": no vReach label reached (vacuous harness)")
		}
		if hr.Spec.Params["RACE_HARNESS"] == 1 && !plantedFound[hr.Spec.Fn] {
			broken = append(broken, hr.Spec.Fn+": the race analysis did not report the race planted in the control harness")
		}
	}
	for _, m := range mismatches {
		broken = append(broken, "ENGINE-MISMATCH "+m)
	}
	// evidence
	ev := buildEvidence(id, tier, seed, &spec, &ts, sh, results, sampleViol, validated, nviol, time.Since(t0), broken, mine)
	os.MkdirAll(filepath.Join(verifRoot, "evidence"), 0o755)
	data, _ := json.MarshalIndent(ev, "", " ")
	os.WriteFile(filepath.Join(verifRoot, "evidence", id+".json"), data, 0o644)
	if len(broken) > 0 {
		for _, b := range broken {
			fmt.Fprintln(os.Stderr, "BROKEN:", b)
		}
		if exit == 0 {
			return 2
		}
	}
	if exit == 0 {
		tot := 0
		for _, hr := range results {
			tot += hr.Paths
		}
		fmt.Printf("OK property=%s tier=%s paths=%d validated_natively=%d wall=%.1fs\n", id, tier, tot, validated, time.Since(t0).Seconds())
	}
	return exit
}

func buildEvidence(id, tier string, seed int64, spec *CheckSpec, ts *TierSpec, sh *Shared, results []*HarnessResult, sampleViol []map[string]interface{}, validated, nviol int, wall time.Duration, broken []string, mine []KnownFinding) map[string]interface{} {
	states, transitions := 0, 0
	var solverS float64
	q := map[string]int{}
	var samples []interface{}
	funcs := map[*ssa.Function]bool{}
	var perH []map[string]interface{}
	reach := map[string]int{}
	mapTrunc := 0
	for _, hr := range results {
		states += hr.Paths
		transitions += hr.Decisions
		solverS += hr.SolverDur.Seconds()
		q["total"] += hr.Queries
		q["sat"] += hr.Sat
		q["unsat"] += hr.Unsat
		q["assertion"] += hr.AssertQ
		q["assertion_unsat"] += hr.AssertUnsat
		mapTrunc += hr.MapTrunc
		for f := range hr.Funcs {
			funcs[f] = true
		}
		for k, v := range hr.Reach {
			reach[hr.Spec.Fn+"/"+k] += v
		}
		perH = append(perH, map[string]interface{}{"harness": hr.Spec.Fn, "params": hr.Spec.Params, "paths": hr.Paths, "completed": hr.Completed, "decisions": hr.Decisions, "max_decisions_on_a_path": hr.MaxDecision, "ssa_instructions_executed": hr.Steps, "asserts_reached": hr.Asserts, "reach": hr.Reach, "ended": hr.Aborts, "inconclusive": hr.Inconcl, "wall_s": round2(hr.Wall.Seconds())})
		for i, w := range hr.Witnesses {
			if i >= 2 {
				break
			}
			samples = append(samples, map[string]interface{}{"harness": hr.Spec.Fn, "decisions": w.Trail, "script": scriptJSON(w.Script), "observed": w.Observes, "outcome": "path completed, all assertions on it unsat"})
		}
		if len(hr.Witnesses) == 0 {
			for _, p := range hr.SamplePaths {
				samples = append(samples, map[string]interface{}{"harness": hr.Spec.Fn, "decisions": p, "outcome": "path completed"})
			}
		}
	}
	for _, sv := range sampleViol {
		samples = append(samples, sv)
	}
	if len(samples) == 0 {
		samples = append(samples, map[string]interface{}{"note": "no path completed"})
	}
	var fl []map[string]interface{}
	for f := range funcs {
		if f.Pkg == nil || !strings.HasPrefix(f.Pkg.Pkg.Path(), repoMod) {
			continue
		}
		if strings.HasPrefix(f.Name(), "Verif") || strings.Contains(sh.prog.Fset.Position(f.Pos()).Filename, "zz_verif_") {
			continue
		}
		fl = append(fl, map[string]interface{}{"fn": fnName(f), "ssa_instrs": ninstr(f), "src_sha256_8": srcHash(sh.prog, f)})
	}
	sort.Slice(fl, func(i, j int) bool { return fl[i]["fn"].(string) < fl[j]["fn"].(string) })
	assumptions := append([]string{}, spec.Assumptions...)
	for a := range sh.assumptions {
		assumptions = append(assumptions, a)
	}
	sort.Strings(assumptions)
	assumptions = append(assumptions, "bounded claim: holds for every input within the stated bounds under the listed stubs; nothing is claimed outside them")
	if mapTrunc > 0 {
		assumptions = append(assumptions, fmt.Sprintf("map iteration order: all permutations for maps of <= %d entries; %d iterations over larger maps used insertion order (outside the bound)", sh.permLimit, mapTrunc))
	}
	if states < 1 {
		states = 1
	}
	if transitions < 1 {
		transitions = 1
	}
	var kf []string
	for _, k := range mine {
		kf = append(kf, k.Kind+": "+k.Harness+"/"+k.Label+" — "+k.What)
	}
	cov := map[string]interface{}{
		"states": states, "transitions": transitions, "traces_validated_against_impl": validated, "samples": samples,
		"functions_encoded": fl, "bounds": ts.Bounds, "outside_bounds": spec.Outside,
		"queries": q, "solver_s": round2(solverS), "solver": sh.solverBin + " (z3 4.8.12, persistent process per worker, push/pop)",
		"stubs": spec.Stubs, "trusted_base": spec.Trusted, "harnesses": perH, "reach_witnesses": reach,
		"exhaustive": len(broken) == 0, "load_s": round2(sh.loadDur.Seconds()), "known_findings_file_entries": kf,
		"rule": "states = feasible paths of the real SSA explored by DFS over solver-decided branches; transitions = decisions taken; each assertion is an SMT query over all values on its path",
	}
	if len(broken) > 0 {
		cov["broken"] = broken
	}
	if sh.lockCheck {
		sites := map[string]bool{}
		edges := map[string]string{}
		for _, hr := range results {
			for k := range hr.LockSites {
				sites[k] = true
			}
			for k, v := range hr.LockEdges {
				edges[k] = v
			}
		}
		var sl, el []string
		for k := range sites {
			sl = append(sl, k)
		}
		for k, v := range edges {
			el = append(el, k+"  @ "+v)
		}
		sort.Strings(sl)
		sort.Strings(el)
		cov["lock_acquisition_sites_executed"] = sl
		cov["lock_order_edges"] = el
	}
	return map[string]interface{}{"property_id": id, "tier": tier, "seed": seed, "level": "model_checking", "coverage": cov, "assumptions": assumptions, "wall_s": round2(wall.Seconds()), "violations": nviol}
}

func round2(f float64) float64 { return float64(int(f*100+0.5)) / 100 }

// runDev: symgo run <pkgdir> <Fn> [k=v ...]  — explore one harness and print a summary (development aid).
func runDev(args []string) int {
	if len(args) < 2 {
		fmt.Fprintln(os.Stderr, "usage: symgo run <pkgdir> <Fn> [k=v...]")
		return 2
	}
	pd, fn := args[0], args[1]
	params := map[string]int{}
	for _, kv := range args[2:] {
		p := strings.SplitN(kv, "=", 2)
		n, _ := strconv.Atoi(p[1])
		params[p[0]] = n
	}
	pds := strings.Split(pd, ",") // harness package first, then further packages that need their overlay
	pd = pds[0]
	overlay, _, err := buildOverlay(pds, "")
	if err != nil {
		fmt.Fprintln(os.Stderr, err)
		return 2
	}
	sh, err := loadProgram(repoRoot, pds, overlay)
	if err != nil {
		fmt.Fprintln(os.Stderr, err)
		return 2
	}
	sh.solverBin = "z3"
	sh.solverTimeoutMs = 10000
	sh.trackFuncs = false
	sh.preempt = envInt("VERIF_PREEMPT", 0)
	if v := envInt("VERIF_PERM", 0); v > 0 {
		sh.permLimit = v
	}
	sh.poolAdversarial = os.Getenv("VERIF_POOLADV") != ""
	sh.lockCheck = os.Getenv("VERIF_LOCKCHECK") != ""
	sh.raceCheck = os.Getenv("VERIF_RACECHECK") != ""
	sh.known = map[string]bool{}
	for _, l := range strings.Split(os.Getenv("VERIF_KNOWN"), ",") {
		if l != "" {
			sh.known["*/"+l] = true
		}
	}
	t1 := time.Now()
	if err := sh.buildSnapshot([]*ssa.Package{sh.spkgs[pkgPathOf(pd)]}); err != nil {
		fmt.Fprintln(os.Stderr, err)
		return 2
	}
	tInit := time.Since(t1)
	hr, err := sh.runHarness(HarnessSpec{Fn: fn, Pkg: pd, Params: params}, envInt("VERIF_WORKERS", runtime.NumCPU()), 0, time.Now().Add(time.Duration(envInt("VERIF_BUDGET", 600))*time.Second))
	if err != nil {
		fmt.Fprintln(os.Stderr, "FATAL:", err)
		return 2
	}
	fmt.Printf("harness=%s load=%.1fs init=%.2fs explore=%.1fs paths=%d completed=%d decisions=%d maxdec=%d steps=%d queries=%d solver=%.1fs\n", fn, sh.loadDur.Seconds(), tInit.Seconds(), hr.Wall.Seconds(), hr.Paths, hr.Completed, hr.Decisions, hr.MaxDecision, hr.Steps, hr.Queries, hr.SolverDur.Seconds())
	fmt.Println("ended:", hr.Aborts)
	fmt.Println("asserts reached:", hr.Asserts)
	fmt.Println("reach:", hr.Reach)
	for _, k := range sortedKeys(hr.Inconcl) {
		fmt.Printf("INCONCLUSIVE x%d %s\n", hr.Inconcl[k], k)
	}
	keys := []string{}
	for k := range hr.Violations {
		keys = append(keys, k)
	}
	sort.Strings(keys)
	for _, k := range keys {
		v := hr.Violations[k]
		js, _ := json.Marshal(scriptJSON(v.Script))
		fmt.Printf("VIOLATION %s x%d %s\n   script=%s\n   stack=%s\n", k, hr.ViolCount[k], v.Msg, js, v.Stack)
	}
	return 0
}

func selftest() int {
	// the solver answers, and the loader builds the repository with an empty overlay
	sol := NewSolver("z3", 5000)
	x := Var("x", 8)
	sol.Declare("x", 8)
	sol.Assert(Bin(">", x, Const(8, 250), false))
	if sol.Check() != "sat" {
		fmt.Println("selftest: solver")
		return 1
	}
	sol.Close()
	fmt.Println("selftest ok")
	return 0
}
