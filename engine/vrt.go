package main

import (
	"fmt"

	"golang.org/x/tools/go/ssa"
)

// Harness runtime: functions named v[A-Z]* declared in zz_verif_vrt.go are intercepted here.
var vrtTable = map[string]intrinsicFn{}

func (ex *Exec) ndSym(kind string, ts ...*Term) {
	ex.nd = append(ex.nd, ndEntry{Kind: kind, Terms: ts})
}

func constInt(v Value, what string) int {
	t := v.(*Term)
	if !t.IsConst() {
		panic(pathAbort{"HARNESS " + what + " must be concrete"})
	}
	return int(sext(t.val, t.width))
}

func init() {
	V := vrtTable
	V["vLen"] = func(ex *Exec, fn *ssa.Function, args []Value) Value {
		max := constInt(args[0], "vLen bound")
		k := ex.choose(max + 1)
		ex.nd = append(ex.nd, ndEntry{Kind: "int", Int: k})
		return Const(64, uint64(k))
	}
	V["vChoose"] = func(ex *Exec, fn *ssa.Function, args []Value) Value {
		n := constInt(args[0], "vChoose bound")
		if n < 1 {
			n = 1
		}
		k := ex.choose(n)
		ex.nd = append(ex.nd, ndEntry{Kind: "int", Int: k})
		return Const(64, uint64(k))
	}
	V["vRange"] = func(ex *Exec, fn *ssa.Function, args []Value) Value {
		// non-forking integer in [lo,hi]
		lo, hi := constInt(args[0], "vRange lo"), constInt(args[1], "vRange hi")
		t := ex.fresh("r", 64)
		ex.assume(And(Bin(">=", t, Const(64, uint64(lo)), true), Bin("<=", t, Const(64, uint64(hi)), true)))
		ex.ndSym("int", t)
		return t
	}
	V["vBytes"] = func(ex *Exec, fn *ssa.Function, args []Value) Value {
		n := constInt(args[0], "vBytes length")
		ts := make([]*Term, n)
		for i := range ts {
			ts[i] = ex.fresh("b", 8)
		}
		ex.ndSym("bytes", ts...)
		return mkSlice(ts)
	}
	V["vBytesIn"] = func(ex *Exec, fn *ssa.Function, args []Value) Value {
		n := constInt(args[0], "vBytesIn length")
		set := args[1].(Str)
		ts := make([]*Term, n)
		for i := range ts {
			ts[i] = ex.fresh("b", 8)
			c := tFalse
			for _, m := range set {
				c = Or(c, Eq(ts[i], m))
			}
			ex.assume(c)
		}
		ex.ndSym("bytes", ts...)
		return mkSlice(ts)
	}
	V["vStrIn"] = func(ex *Exec, fn *ssa.Function, args []Value) Value {
		n := constInt(args[0], "vStrIn length")
		set := args[1].(Str)
		ts := make([]*Term, n)
		for i := range ts {
			ts[i] = ex.fresh("c", 8)
			c := tFalse
			for _, m := range set {
				c = Or(c, Eq(ts[i], m))
			}
			ex.assume(c)
		}
		ex.ndSym("bytes", ts...)
		return Str(ts)
	}
	V["vByte"] = func(ex *Exec, fn *ssa.Function, args []Value) Value {
		t := ex.fresh("u8", 8)
		ex.ndSym("int", t)
		return t
	}
	V["vByteIn"] = func(ex *Exec, fn *ssa.Function, args []Value) Value {
		set := args[0].(Str)
		t := ex.fresh("c", 8)
		c := tFalse
		for _, m := range set {
			c = Or(c, Eq(t, m))
		}
		ex.assume(c)
		ex.ndSym("int", t)
		return t
	}
	V["vU16"] = func(ex *Exec, fn *ssa.Function, args []Value) Value {
		t := ex.fresh("u16", 16)
		ex.ndSym("int", t)
		return t
	}
	V["vU32"] = func(ex *Exec, fn *ssa.Function, args []Value) Value {
		t := ex.fresh("u32", 32)
		ex.ndSym("int", t)
		return t
	}
	V["vU64"] = func(ex *Exec, fn *ssa.Function, args []Value) Value {
		t := ex.fresh("u64", 64)
		ex.ndSym("int", t)
		return t
	}
	V["vI64"] = func(ex *Exec, fn *ssa.Function, args []Value) Value {
		t := ex.fresh("i64", 64)
		ex.ndSym("sint", t)
		return t
	}
	V["vBool"] = func(ex *Exec, fn *ssa.Function, args []Value) Value {
		t := ex.fresh("p", 0)
		ex.ndSym("bool", t)
		return t
	}
	V["vConcrete"] = func(ex *Exec, fn *ssa.Function, args []Value) Value {
		lo, hi := constInt(args[1], "vConcrete lo"), constInt(args[2], "vConcrete hi")
		k := ex.concretize(args[0].(*Term), lo, hi, true)
		if k > hi {
			panic(pathAbort{"assume-false"})
		}
		return Const(64, uint64(k))
	}
	V["vAssume"] = func(ex *Exec, fn *ssa.Function, args []Value) Value {
		c := args[0].(*Term)
		if c.isTrue() {
			return nil
		}
		if c.isFalse() || !ex.sol.Feasible(c) {
			panic(pathAbort{"assume-false"})
		}
		ex.assume(c)
		return nil
	}
	V["vAssert"] = func(ex *Exec, fn *ssa.Function, args []Value) Value {
		label := strOf(args[0])
		c := args[1].(*Term)
		ex.res.asserts[label]++
		if c.isTrue() {
			return nil
		}
		if ex.sh.ignoreAsserts {
			// this check borrows another property's harness for its paths only (lock discipline): the
			// harness's own assertions are decided by that property's check, here they are assumed
			if c.isFalse() || !ex.sol.Feasible(c) {
				panic(pathAbort{"assume-false"})
			}
			ex.assume(c)
			return nil
		}
		ex.res.assertQ++
		nc := Not(c)
		if nc.isFalse() || !ex.sol.Feasible(nc) {
			ex.res.assertUnsat++
			if ex.sh.logSmt {
				ex.sh.logQuery(ex, label, nc, "unsat")
			}
			return nil
		}
		// violated: extract a model
		ex.sol.Push()
		ex.sol.Assert(nc)
		ex.sol.Check()
		script, _ := ex.buildScript()
		tr := append(ex.sol.Transcript(), "(check-sat)")
		ex.sol.Pop()
		ex.recordViolation("assert", label, "assertion "+label+" can fail", script)
		ex.res.violations[len(ex.res.violations)-1].Smt = tr
		if ex.kf[ex.harness+"/"+label] || ex.kf["*/"+label] {
			// known finding: continue with this class excluded, if the rest is feasible
			if c.isFalse() || !ex.sol.Feasible(c) {
				panic(pathAbort{"known-finding-end"})
			}
			ex.assume(c)
			return nil
		}
		panic(pathAbort{"violation-end"})
	}
	V["vReach"] = func(ex *Exec, fn *ssa.Function, args []Value) Value {
		ex.res.reach[strOf(args[0])]++
		return nil
	}
	V["vObserve"] = func(ex *Exec, fn *ssa.Function, args []Value) Value {
		t := args[1].(*Term)
		if t.width == 0 {
			t = Ite(t, Const(64, 1), Const(64, 0))
		}
		ex.obs = append(ex.obs, obsEntry{Label: strOf(args[0]), Terms: []*Term{Resize(t, 64, false)}})
		return nil
	}
	V["vObserveBool"] = V["vObserve"]
	V["vObserveBytes"] = func(ex *Exec, fn *ssa.Function, args []Value) Value {
		ts := toStr(args[1])
		e := obsEntry{Label: strOf(args[0])}
		for _, t := range ts {
			e.Terms = append(e.Terms, Resize(t, 64, false))
		}
		ex.obs = append(ex.obs, e)
		return nil
	}
	V["vObserveStr"] = V["vObserveBytes"]
	V["vParam"] = func(ex *Exec, fn *ssa.Function, args []Value) Value {
		name := strOf(args[0])
		if v, ok := ex.sh.params[name]; ok {
			return Const(64, uint64(v))
		}
		return args[1]
	}
	V["vNoMapOrder"] = func(ex *Exec, fn *ssa.Function, args []Value) Value {
		ex.noMapPerm = true
		ex.sh.noteAssumption("map iteration order fixed to insertion order in " + ex.harness)
		return nil
	}
	V["vMapOrder"] = func(ex *Exec, fn *ssa.Function, args []Value) Value {
		ex.noMapPerm = !args[0].(*Term).Bool()
		return nil
	}
	V["vDrain"] = func(ex *Exec, fn *ssa.Function, args []Value) Value {
		ex.drain()
		return nil
	}
	V["vClockAdvance"] = func(ex *Exec, fn *ssa.Function, args []Value) Value {
		ex.clock = Bin("+", ex.now(), args[0].(*Term), true)
		return nil
	}
	V["vNative"] = func(ex *Exec, fn *ssa.Function, args []Value) Value { return tFalse }
	// vTerminates(label, ksteps): what follows, up to vTerminated(), must finish within ksteps*1000 interpreter steps
	V["vTerminates"] = func(ex *Exec, fn *ssa.Function, args []Value) Value {
		ex.termLabel = strOf(args[0])
		ex.termLimit = ex.steps + 1000*int(args[1].(*Term).val)
		ex.res.asserts[ex.termLabel]++
		return nil
	}
	// vSchedBudget(preempt, sched): from here on at most so many pre-emptions and non-default scheduling choices
	// (set-up phases run with 0, 0; the concurrent phase of a scenario gets the budget)
	V["vSchedBudget"] = func(ex *Exec, fn *ssa.Function, args []Value) Value {
		if ex.gor != nil {
			ex.gor.preemptLeft = int(sext(args[0].(*Term).val, 64))
			ex.gor.schedLeft = int(sext(args[1].(*Term).val, 64))
		}
		return nil
	}
	V["vTerminated"] = func(ex *Exec, fn *ssa.Function, args []Value) Value {
		ex.termLimit = 0
		return nil
	}
	V["vNow"] = func(ex *Exec, fn *ssa.Function, args []Value) Value {
		return ex.now()
	}
	// --- conn ---
	V["vConn"] = func(ex *Exec, fn *ssa.Function, args []Value) Value {
		return nativeIface(&ConnV{})
	}
	conn := func(v Value) *ConnV {
		c, ok := v.(Iface).v.(*ConnV)
		if !ok {
			panic(pathAbort{"HARNESS not a vConn"})
		}
		return c
	}
	V["vConnFeed"] = func(ex *Exec, fn *ssa.Function, args []Value) Value {
		c := conn(args[0])
		c.script = append(c.script, toStr(args[1])...)
		return nil
	}
	V["vConnLive"] = func(ex *Exec, fn *ssa.Function, args []Value) Value {
		c := nativeIface(&ConnV{blocking: true})
		return c
	}
	V["vConnEOF"] = func(ex *Exec, fn *ssa.Function, args []Value) Value {
		conn(args[0]).eof = true
		return nil
	}
	V["vGo"] = func(ex *Exec, fn *ssa.Function, args []Value) Value {
		ex.spawn(args[0], nil)
		return nil
	}
	V["vConnWritten"] = func(ex *Exec, fn *ssa.Function, args []Value) Value {
		c := conn(args[0])
		return mkSlice(append([]*Term{}, c.flat...))
	}
	V["vConnWrites"] = func(ex *Exec, fn *ssa.Function, args []Value) Value {
		return Const(64, uint64(len(conn(args[0]).writes)))
	}
	V["vConnWrite"] = func(ex *Exec, fn *ssa.Function, args []Value) Value {
		c := conn(args[0])
		i := constInt(args[1], "vConnWrite index")
		if i < 0 || i >= len(c.writes) {
			return Slice{}
		}
		return mkSlice(append([]*Term{}, c.writes[i]...))
	}
	V["vConnClosed"] = func(ex *Exec, fn *ssa.Function, args []Value) Value {
		return BoolC(conn(args[0]).closed)
	}
	V["vConnFailMode"] = func(ex *Exec, fn *ssa.Function, args []Value) Value {
		conn(args[0]).failMode = constInt(args[1], "vConnFailMode")
		return nil
	}
	V["vConnFailed"] = func(ex *Exec, fn *ssa.Function, args []Value) Value {
		return Const(64, uint64(conn(args[0]).nFail))
	}
	V["vConnUnread"] = func(ex *Exec, fn *ssa.Function, args []Value) Value {
		c := conn(args[0])
		return Const(64, uint64(len(c.script)-c.rd))
	}
	V["vConnDeadlines"] = func(ex *Exec, fn *ssa.Function, args []Value) Value {
		return Const(64, uint64(len(conn(args[0]).deadlines)))
	}
	// deadline i as nanoseconds after the model clock's "now" (0 = zero time.Time → no deadline; reported as -1)
	V["vConnDeadlineNs"] = func(ex *Exec, fn *ssa.Function, args []Value) Value {
		c := conn(args[0])
		i := constInt(args[1], "vConnDeadlineNs index")
		if i < 0 || i >= len(c.deadlines) {
			panic(pathAbort{"HARNESS deadline index"})
		}
		d := c.deadlines[i]
		sec, extra := d[1].(*Term), d[0].(*Term)
		isZero := And(Eq(sec, Const(64, 0)), Eq(extra, Const(64, 0)))
		ds := Bin("-", sec, ex.now(), true)
		var ns *Term
		if ds.IsConst() && ds.val == 0 {
			ns = extra
		} else {
			ns = Bin("+", Bin("*", ds, Const(64, 1000000000), true), extra, true)
		}
		if sec == ex.now() {
			ns = extra
		}
		return Ite(isZero, Const(64, ^uint64(0)), ns)
	}
	V["vLockViolations"] = func(ex *Exec, fn *ssa.Function, args []Value) Value {
		n := 0
		for _, v := range ex.res.violations {
			if v.Kind == "lock" {
				n++
			}
		}
		return Const(64, uint64(n))
	}
}

// buildScript evaluates the recorded nondeterministic answers under the solver's current model.
func (ex *Exec) buildScript() ([]interface{}, map[string]uint64) {
	model := ex.sol.Model(ex.vars)
	memo := map[*Term]uint64{}
	var script []interface{}
	for _, e := range ex.nd {
		ent := map[string]interface{}{"k": e.Kind}
		switch {
		case e.Kind == "bytes":
			bs := make([]int, len(e.Terms))
			for i, t := range e.Terms {
				bs[i] = int(evalTerm(t, model, memo))
			}
			ent["v"] = bs
		case len(e.Terms) == 1:
			v := evalTerm(e.Terms[0], model, memo)
			if e.Kind == "sint" {
				ent["k"] = "int"
				ent["v"] = sext(v, e.Terms[0].width)
			} else if e.Kind == "bool" {
				ent["v"] = v
			} else {
				ent["v"] = v
			}
		default:
			ent["v"] = e.Int
		}
		script = append(script, ent)
	}
	return script, model
}

func (ex *Exec) recordViolation(kind, label, msg string, script []interface{}) {
	v := &Violation{Harness: ex.harness, Label: label, Kind: kind, Msg: msg, Script: script, Trail: append([]int{}, ex.trail...), Stack: ex.stackString()}
	ex.res.violations = append(ex.res.violations, v)
}

func (ex *Exec) observeValues(model map[string]uint64) map[string][]uint64 {
	memo := map[*Term]uint64{}
	out := map[string][]uint64{}
	cnt := map[string]int{}
	for _, o := range ex.obs {
		key := fmt.Sprintf("%s#%d", o.Label, cnt[o.Label])
		cnt[o.Label]++
		vals := make([]uint64, len(o.Terms))
		for i, t := range o.Terms {
			vals[i] = evalTerm(t, model, memo)
		}
		out[key] = vals
	}
	return out
}
