package main

import (
	"fmt"
	"os"
	"path/filepath"
	"sort"
	"strings"
	"sync"
	"time"

	"golang.org/x/tools/go/packages"
	"golang.org/x/tools/go/ssa"
	"golang.org/x/tools/go/ssa/ssautil"
)

const repoMod = "github.com/mochi-mqtt/server/v2"

// Shared is the per-run state shared (read-only after setup) by all workers.
type Shared struct {
	prog            *ssa.Program
	pkgs            []*packages.Package
	spkgs           map[string]*ssa.Package
	snapshot        map[*ssa.Global]*Obj
	initPkgs        map[string]bool
	zeroOK          map[string]bool
	intrCache       sync.Map
	maxSteps        int
	maxAlloc        int
	permLimit       int
	preempt         int
	poolAdversarial bool
	lockCheck       bool
	raceCheck       bool
	ignoreAsserts   bool
	basePreempt     int
	schedLimit      int
	basePerm        int
	baseSaved       bool
	trackFuncs      bool
	logSmt          bool
	params          map[string]int
	known           map[string]bool
	solverBin       string
	solverTimeoutMs int
	seed            int64
	mu              sync.Mutex
	assumptions     map[string]bool
	smtLogged       map[string]int
	smtDir          string
	overlay         map[string][]byte
	loadDur         time.Duration
}

func (sh *Shared) noteAssumption(s string) {
	sh.mu.Lock()
	sh.assumptions[s] = true
	sh.mu.Unlock()
}

func (sh *Shared) logQuery(ex *Exec, label string, q *Term, verdict string) {
	key := ex.harness + "/" + label + "/" + verdict
	sh.mu.Lock()
	n := sh.smtLogged[key]
	sh.smtLogged[key] = n + 1
	sh.mu.Unlock()
	if n >= 2 || sh.smtDir == "" {
		return
	}
	ex.sol.Push()
	ex.sol.Assert(q)
	tr := append(ex.sol.Transcript(), "(check-sat)")
	ex.sol.Pop()
	writeSmt(sh.smtDir, fmt.Sprintf("%s__%s__%s_%d.smt2", ex.harness, sanitize(label), verdict, n), tr, verdict)
}

func sanitize(s string) string {
	var b strings.Builder
	for _, r := range s {
		if (r >= 'a' && r <= 'z') || (r >= 'A' && r <= 'Z') || (r >= '0' && r <= '9') || r == '-' || r == '_' {
			b.WriteRune(r)
		} else {
			b.WriteByte('_')
		}
	}
	return b.String()
}

func writeSmt(dir, name string, lines []string, expect string) {
	os.MkdirAll(dir, 0o755)
	var sb strings.Builder
	sb.WriteString("; expected: " + expect + "\n")
	for _, l := range lines {
		if strings.HasPrefix(l, "(set-option :timeout") {
			continue
		}
		sb.WriteString(l)
		sb.WriteByte('\n')
	}
	os.WriteFile(filepath.Join(dir, name), []byte(sb.String()), 0o644)
}

var stdInitPkgs = []string{"io", "bytes", "strings", "strconv", "sort", "unicode/utf8", "encoding/binary", "math", "math/bits", "context", "container/list", "slices", "cmp", "maps"}

// loadProgram loads the repo packages named by patterns with the harness overlay and builds SSA.
func loadProgram(repo string, patterns []string, overlay map[string][]byte) (*Shared, error) {
	t0 := time.Now()
	cfg := &packages.Config{Mode: packages.LoadAllSyntax, Dir: repo, Overlay: overlay,
		Env: append(os.Environ(), "GOFLAGS=-mod=mod", "GOPROXY=off", "GOSUMDB=off", "GOTOOLCHAIN=local")}
	pkgs, err := packages.Load(cfg, patterns...)
	if err != nil {
		return nil, err
	}
	nerr := 0
	packages.Visit(pkgs, nil, func(p *packages.Package) {
		for _, e := range p.Errors {
			if strings.HasPrefix(p.PkgPath, repoMod) {
				fmt.Fprintln(os.Stderr, "LOAD ERROR:", e)
				nerr++
			}
		}
	})
	if nerr > 0 {
		return nil, fmt.Errorf("%d load errors (the repository or a harness does not compile)", nerr)
	}
	prog, spkgs := ssautil.AllPackages(pkgs, ssa.InstantiateGenerics)
	prog.Build()
	sh := &Shared{prog: prog, pkgs: pkgs, spkgs: map[string]*ssa.Package{}, initPkgs: map[string]bool{}, zeroOK: map[string]bool{"github.com/dgraph-io/badger/v4": true, "github.com/cockroachdb/pebble": true, "github.com/go-redis/redis/v8": true, "go.etcd.io/bbolt": true, "errors": true, "os": true, "time": true, "log/slog": true, "syscall": true, "net": true, "reflect": true, "runtime": true, "sync": true, "unicode": true},
		maxSteps: maxSteps, maxAlloc: 4096, permLimit: 3, params: map[string]int{}, known: map[string]bool{}, assumptions: map[string]bool{}, smtLogged: map[string]int{}, overlay: overlay}
	for i, p := range spkgs {
		if p != nil {
			sh.spkgs[pkgs[i].PkgPath] = p
		}
	}
	for _, p := range prog.AllPackages() {
		if strings.HasPrefix(p.Pkg.Path(), repoMod) {
			sh.initPkgs[p.Pkg.Path()] = true
		}
	}
	for _, s := range stdInitPkgs {
		sh.initPkgs[s] = true
	}
	sh.loadDur = time.Since(t0)
	return sh, nil
}

func (sh *Shared) newExec(sol *Solver) *Exec {
	ex := &Exec{sh: sh, prog: sh.prog, sol: sol, globals: map[*ssa.Global]*Obj{}, cp: newCopier(), varW: map[string]int{}, once: map[string]bool{}, pools: map[string][]Value{}, wg: map[string]int{}, kf: sh.known}
	ex.res = &PathResult{asserts: map[string]int{}, reach: map[string]int{}, lockSites: map[string]bool{}, lockEdges: map[string]string{}, funcs: map[*ssa.Function]bool{}}
	ex.initSched()
	return ex
}

// buildSnapshot runs the package initialisers once and keeps the resulting heap as a template.
func (sh *Shared) buildSnapshot(targets []*ssa.Package) error {
	sol := NewSolver(sh.solverBin, sh.solverTimeoutMs)
	defer sol.Close()
	ex := sh.newExec(sol)
	var err error
	func() {
		defer func() {
			if r := recover(); r != nil {
				err = fmt.Errorf("package init failed: %v [%s]", r, ex.abortStack)
				if gp, ok := r.(*goPanic); ok {
					err = fmt.Errorf("package init panicked: %s [%s]", gp.msg, ex.stackString())
				}
			}
		}()
		for _, p := range targets {
			ex.call(p.Func("init"), nil, nil)
		}
	}()
	ex.killAll()
	if err != nil {
		return err
	}
	sh.snapshot = ex.globals
	return nil
}

type HarnessSpec struct {
	Fn     string         `json:"fn"`
	Pkg    string         `json:"pkg"` // repo-relative package dir ("." for root)
	Params map[string]int `json:"params"`
}

type HarnessResult struct {
	Spec        HarnessSpec
	Paths       int
	Completed   int
	Decisions   int
	MaxDecision int
	Steps       int64
	Asserts     map[string]int
	Reach       map[string]int
	Aborts      map[string]int
	Inconcl     map[string]int // UNSUPPORTED/BOUND/ENGINE/... reasons
	Violations  map[string]*Violation
	ViolCount   map[string]int
	Witnesses   []*Witness
	Queries     int
	Sat         int
	Unsat       int
	AssertQ     int
	AssertUnsat int
	SolverDur   time.Duration
	Wall        time.Duration
	MapTrunc    int
	LockSites   map[string]bool
	LockEdges   map[string]string
	Funcs       map[*ssa.Function]bool
	SamplePaths [][]int
}

func pkgPathOf(dir string) string {
	dir = strings.TrimPrefix(dir, "./")
	if dir == "." || dir == "" {
		return repoMod
	}
	return repoMod + "/" + dir
}

// runHarness explores all paths of one harness with nworkers parallel workers.
func (sh *Shared) runHarness(spec HarnessSpec, nworkers int, witnessCap int, deadline time.Time) (*HarnessResult, error) {
	sp := sh.spkgs[pkgPathOf(spec.Pkg)]
	if sp == nil {
		return nil, fmt.Errorf("package %s not loaded", spec.Pkg)
	}
	hf := sp.Func(spec.Fn)
	if hf == nil {
		return nil, fmt.Errorf("no harness function %s in %s", spec.Fn, spec.Pkg)
	}
	sh.params = spec.Params
	if sh.params == nil {
		sh.params = map[string]int{}
	}
	// a harness may ask for its own pre-emption bound (PREEMPT) and map-order limit (PERM)
	if !sh.baseSaved {
		sh.basePreempt, sh.basePerm, sh.baseSaved = sh.preempt, sh.permLimit, true
	}
	sh.preempt, sh.permLimit = sh.basePreempt, sh.basePerm
	if v, ok := sh.params["PREEMPT"]; ok {
		sh.preempt = v
	}
	if v, ok := sh.params["PERM"]; ok {
		sh.permLimit = v
	}
	// SCHED: bound on how often the scheduler may pick another than the first runnable goroutine when the
	// running one blocks or ends (-1: every choice is explored, the default)
	sh.schedLimit = -1
	if v, ok := sh.params["SCHED"]; ok {
		sh.schedLimit = v
	}
	hr := &HarnessResult{Spec: spec, Asserts: map[string]int{}, Reach: map[string]int{}, Aborts: map[string]int{}, Inconcl: map[string]int{}, Violations: map[string]*Violation{}, ViolCount: map[string]int{}, LockSites: map[string]bool{}, LockEdges: map[string]string{}, Funcs: map[*ssa.Function]bool{}}
	t0 := time.Now()
	var mu sync.Mutex
	cond := sync.NewCond(&mu)
	work := [][]int{{}}
	active := 0
	stop := false
	var fatal error
	var wgrp sync.WaitGroup
	for w := 0; w < nworkers; w++ {
		wgrp.Add(1)
		go func(w int) {
			defer wgrp.Done()
			sol := NewSolver(sh.solverBin, sh.solverTimeoutMs)
			defer func() {
				mu.Lock()
				hr.Queries += sol.queries
				hr.Sat += sol.sat
				hr.Unsat += sol.unsat
				hr.SolverDur += sol.dur
				mu.Unlock()
				sol.Close()
			}()
			for {
				mu.Lock()
				for len(work) == 0 && active > 0 && !stop {
					cond.Wait()
				}
				if stop || (len(work) == 0 && active == 0) {
					mu.Unlock()
					cond.Broadcast()
					return
				}
				prefix := work[len(work)-1]
				work = work[:len(work)-1]
				active++
				npaths := hr.Paths
				hr.Paths++
				mu.Unlock()

				wantWitness := witnessCap > 0 && (npaths < witnessCap/2 || (npaths%97 == int(sh.seed%97)))
				res, newWork, err := sh.runPath(sol, hf, spec.Fn, prefix, wantWitness)

				mu.Lock()
				active--
				if err != nil {
					if fatal == nil {
						fatal = err
					}
					stop = true
				} else {
					work = append(work, newWork...)
					hr.merge(res, witnessCap)
				}
				if time.Now().After(deadline) && (len(work) > 0 || active > 0) {
					hr.Inconcl["BOUND wall-clock budget exhausted before all paths were explored"]++
					stop = true
				}
				mu.Unlock()
				cond.Broadcast()
			}
		}(w)
	}
	wgrp.Wait()
	hr.Wall = time.Since(t0)
	return hr, fatal
}

func (hr *HarnessResult) merge(r *PathResult, witnessCap int) {
	hr.Decisions += len(r.trail)
	if len(r.trail) > hr.MaxDecision {
		hr.MaxDecision = len(r.trail)
	}
	hr.Steps += int64(r.steps)
	hr.AssertQ += r.assertQ
	hr.AssertUnsat += r.assertUnsat
	hr.MapTrunc += r.mapTrunc
	for k, v := range r.asserts {
		hr.Asserts[k] += v
	}
	for k, v := range r.reach {
		hr.Reach[k] += v
	}
	for k := range r.lockSites {
		hr.LockSites[k] = true
	}
	for k, v := range r.lockEdges {
		hr.LockEdges[k] = v
	}
	for f := range r.funcs {
		hr.Funcs[f] = true
	}
	for _, v := range r.violations {
		key := v.Kind + ":" + v.Label
		hr.ViolCount[key]++
		if old, ok := hr.Violations[key]; !ok || len(fmt.Sprint(v.Script)) < len(fmt.Sprint(old.Script)) {
			hr.Violations[key] = v
		}
	}
	switch {
	case r.abort == "":
		hr.Completed++
		if len(hr.SamplePaths) < 3 {
			hr.SamplePaths = append(hr.SamplePaths, r.trail)
		}
	case r.abort == "infeasible" || r.abort == "assume-false" || r.abort == "violation-end" || r.abort == "known-finding-end" || r.abort == "panic" || r.abort == "nonterm":
		hr.Aborts[r.abort]++
	default:
		hr.Inconcl[r.abort]++
	}
	if r.witness != nil && len(hr.Witnesses) < witnessCap {
		hr.Witnesses = append(hr.Witnesses, r.witness)
	}
}

// runPath executes the harness once along the given decision prefix.
func (sh *Shared) runPath(sol *Solver, hf *ssa.Function, name string, prefix []int, wantWitness bool) (res *PathResult, newWork [][]int, err error) {
	ex := sh.newExec(sol)
	ex.prefix = prefix
	ex.harness = name
	sol.Push()
	defer func() {
		ex.killAll()
		for len(sol.levels) > 1 {
			sol.Pop()
		}
		res = ex.res
		res.trail = ex.trail
		res.steps = ex.steps
		newWork = ex.newWork
	}()
	func() {
		defer func() {
			if r := recover(); r != nil {
				switch e := r.(type) {
				case pathAbort:
					ex.res.abort = e.why
					if strings.HasPrefix(e.why, "UNSUPPORTED") || strings.HasPrefix(e.why, "ENGINE") || strings.HasPrefix(e.why, "BOUND") || strings.HasPrefix(e.why, "DEADLOCK") {
						ex.res.abort = e.why + " @ " + ex.abortStack
					}
				case *goPanic:
					ex.res.abort = "panic"
					ex.res.panicMsg = e.msg
					func() {
						defer func() {
							if r2 := recover(); r2 != nil {
								ex.res.abort = fmt.Sprintf("SOLVER failure while extracting panic model: %v", r2)
							}
						}()
						if sol.Check() == "sat" {
							script, _ := ex.buildScript()
							ex.recordViolation("panic", "no-panic", e.msg, script)
							ex.res.violations[len(ex.res.violations)-1].Stack = e.stack
							ex.res.violations[len(ex.res.violations)-1].Smt = append(sol.Transcript(), "(check-sat)")
						}
					}()
				case nonTerm:
					ex.res.abort = "nonterm"
					ex.termLimit = 0
					func() {
						defer func() {
							if r2 := recover(); r2 != nil {
								ex.res.abort = fmt.Sprintf("SOLVER failure while extracting non-termination model: %v", r2)
							}
						}()
						if sol.Check() == "sat" {
							script, _ := ex.buildScript()
							ex.recordViolation("nonterm", e.label, "the code under test did not finish within the step budget declared by the harness ("+e.label+")", script)
							ex.res.violations[len(ex.res.violations)-1].Smt = append(sol.Transcript(), "(check-sat)")
						}
					}()
				case solverFail:
					ex.res.abort = "SOLVER " + e.why + " @ " + ex.stackString()
				default:
					err = fmt.Errorf("engine crash in %s: %v [%s]", name, r, ex.stackString())
				}
			}
		}()
		ex.call(hf, nil, nil)
		if wantWitness {
			if sol.Check() == "sat" {
				script, model := ex.buildScript()
				ex.res.witness = &Witness{Script: script, Observes: ex.observeValues(model), Trail: append([]int{}, ex.trail...)}
			}
		}
	}()
	return
}

// summary helpers

func sortedKeys(m map[string]int) []string {
	var ks []string
	for k := range m {
		ks = append(ks, k)
	}
	sort.Strings(ks)
	return ks
}
