package main

import (
	"fmt"
	"go/types"

	"golang.org/x/tools/go/ssa"
)

type Value interface{}

// Obj is a heap cell.
type Obj struct {
	v    Value
	note string // e.g. allocation site, for diagnostics
	typ  types.Type
}

// Ptr points into an Obj along a path of struct-field / array indices.
type Ptr struct {
	obj  *Obj
	path []int
}
type Struct []Value
type Array []Value
type Slice struct {
	arr           *Obj // holds an Array
	off, len, cap int
}
type Str []*Term
type Tuple []Value
type Iface struct {
	t types.Type // dynamic type; nil = nil interface
	v Value
}
type Map struct {
	keys, vals []Value
	ids        []uint64 // entry identities (for iteration under mutation)
	next       uint64
	kt, vt     types.Type
}
type Func struct {
	fn  *ssa.Function
	env []Value
}
type FloatV struct{ f float64 }
type Opaque struct{ what string }
type ChanV struct {
	q      []Value
	cap    int
	closed bool
	et     types.Type
}

// NativeFn is an engine-implemented function value (e.g. a context cancel func).
type NativeFn struct {
	name string
	f    func(ex *Exec, args []Value) Value
}

// ErrV is an engine-level error value (errors.New / fmt.Errorf results).
type ErrV struct {
	msg   Str
	wraps []Value // Iface values wrapped with %w
}

type goPanic struct {
	msg   string
	val   Value
	stack string
}

func isNamed(t types.Type, pkg, name string) bool {
	n, ok := t.(*types.Named)
	if !ok {
		return false
	}
	o := n.Obj()
	return o.Name() == name && o.Pkg() != nil && o.Pkg().Path() == pkg
}

func bvWidth(b *types.Basic) (int, bool) {
	switch b.Kind() {
	case types.Bool, types.UntypedBool:
		return 0, false
	case types.Int8:
		return 8, true
	case types.Uint8:
		return 8, false
	case types.Int16:
		return 16, true
	case types.Uint16:
		return 16, false
	case types.Int32, types.UntypedRune:
		return 32, true
	case types.Uint32:
		return 32, false
	case types.Int, types.Int64, types.UntypedInt:
		return 64, true
	case types.Uint, types.Uint64, types.Uintptr:
		return 64, false
	}
	return -1, false
}

func zero(t types.Type) Value {
	switch u := t.Underlying().(type) {
	case *types.Basic:
		if u.Info()&types.IsString != 0 {
			return Str{}
		}
		if u.Kind() == types.UnsafePointer {
			return Ptr{}
		}
		if u.Kind() == types.UntypedNil {
			return nil
		}
		w, _ := bvWidth(u)
		if w == 0 {
			return tFalse
		}
		if w < 0 {
			return FloatV{0}
		}
		return Const(w, 0)
	case *types.Struct:
		s := make(Struct, u.NumFields())
		for i := range s {
			s[i] = zero(u.Field(i).Type())
		}
		return s
	case *types.Array:
		a := make(Array, u.Len())
		for i := range a {
			a[i] = zero(u.Elem())
		}
		return a
	case *types.Pointer:
		return Ptr{}
	case *types.Slice:
		return Slice{}
	case *types.Map:
		return (*Map)(nil)
	case *types.Interface:
		return Iface{}
	case *types.Signature:
		return (*Func)(nil)
	case *types.Chan:
		return (*ChanV)(nil)
	case *types.Tuple:
		tu := make(Tuple, u.Len())
		for i := range tu {
			tu[i] = zero(u.At(i).Type())
		}
		return tu
	}
	panic(fmt.Sprintf("zero: %T %v", t.Underlying(), t))
}

// clone copies by-value aggregates (struct/array/tuple); references are shared.
func clone(v Value) Value {
	switch x := v.(type) {
	case Struct:
		c := make(Struct, len(x))
		for i := range x {
			c[i] = clone(x[i])
		}
		return c
	case Array:
		c := make(Array, len(x))
		for i := range x {
			c[i] = clone(x[i])
		}
		return c
	case Tuple:
		c := make(Tuple, len(x))
		for i := range x {
			c[i] = clone(x[i])
		}
		return c
	}
	return v
}

func (p Ptr) isNil() bool { return p.obj == nil }

func (p Ptr) load() Value {
	if p.obj == nil {
		panic(&goPanic{msg: "invalid memory address or nil pointer dereference"})
	}
	v := p.obj.v
	for _, i := range p.path {
		switch x := v.(type) {
		case Struct:
			v = x[i]
		case Array:
			if i >= len(x) {
				panic(pathAbort{fmt.Sprintf("ENGINE load path index %d beyond %d", i, len(x))})
			}
			v = x[i]
		default:
			panic(pathAbort{fmt.Sprintf("ENGINE load path through %T", v)})
		}
	}
	return clone(v)
}

func (p Ptr) store(nv Value) {
	if p.obj == nil {
		panic(&goPanic{msg: "invalid memory address or nil pointer dereference"})
	}
	nv = clone(nv)
	if len(p.path) == 0 {
		p.obj.v = nv
		return
	}
	v := p.obj.v
	for k, i := range p.path {
		last := k == len(p.path)-1
		switch x := v.(type) {
		case Struct:
			if last {
				x[i] = nv
			} else {
				v = x[i]
			}
		case Array:
			if last {
				x[i] = nv
			} else {
				v = x[i]
			}
		default:
			panic(pathAbort{fmt.Sprintf("ENGINE store path through %T", v)})
		}
	}
}

func (p Ptr) field(i int) Ptr {
	if p.obj == nil {
		panic(&goPanic{msg: "invalid memory address or nil pointer dereference"})
	}
	np := make([]int, len(p.path)+1)
	copy(np, p.path)
	np[len(p.path)] = i
	return Ptr{p.obj, np}
}

func (p Ptr) key() string { return fmt.Sprintf("%p%v", p.obj, p.path) }

func samePtr(a, b Ptr) bool {
	if a.obj != b.obj || len(a.path) != len(b.path) {
		return false
	}
	for i := range a.path {
		if a.path[i] != b.path[i] {
			return false
		}
	}
	return true
}

// deepCopy copies a value graph preserving sharing (memo keyed by reference identity).
type copier struct {
	objs  map[*Obj]*Obj
	maps  map[*Map]*Map
	chans map[*ChanV]*ChanV
	funcs map[*Func]*Func
	errs  map[*ErrV]*ErrV
}

func newCopier() *copier {
	return &copier{objs: map[*Obj]*Obj{}, maps: map[*Map]*Map{}, chans: map[*ChanV]*ChanV{}, funcs: map[*Func]*Func{}, errs: map[*ErrV]*ErrV{}}
}

func (c *copier) obj(o *Obj) *Obj {
	if o == nil {
		return nil
	}
	if n, ok := c.objs[o]; ok {
		return n
	}
	n := &Obj{note: o.note, typ: o.typ}
	c.objs[o] = n
	n.v = c.val(o.v)
	return n
}

func (c *copier) vals(in []Value) []Value {
	if in == nil {
		return nil
	}
	out := make([]Value, len(in))
	for i := range in {
		out[i] = c.val(in[i])
	}
	return out
}

func (c *copier) val(v Value) Value {
	switch x := v.(type) {
	case nil, *Term, Str, FloatV, *Opaque, *ssa.Builtin, *NativeFn:
		return v
	case Ptr:
		if x.obj == nil {
			return x
		}
		return Ptr{obj: c.obj(x.obj), path: x.path}
	case Struct:
		return Struct(c.vals(x))
	case Array:
		return Array(c.vals(x))
	case Tuple:
		return Tuple(c.vals(x))
	case Slice:
		if x.arr == nil {
			return x
		}
		return Slice{arr: c.obj(x.arr), off: x.off, len: x.len, cap: x.cap}
	case Iface:
		return Iface{t: x.t, v: c.val(x.v)}
	case *Map:
		if x == nil {
			return x
		}
		if n, ok := c.maps[x]; ok {
			return n
		}
		n := &Map{kt: x.kt, vt: x.vt, next: x.next, ids: append([]uint64(nil), x.ids...)}
		c.maps[x] = n
		n.keys = c.vals(x.keys)
		n.vals = c.vals(x.vals)
		return n
	case *ChanV:
		if x == nil {
			return x
		}
		if n, ok := c.chans[x]; ok {
			return n
		}
		n := &ChanV{cap: x.cap, closed: x.closed, et: x.et}
		c.chans[x] = n
		n.q = c.vals(x.q)
		return n
	case *Func:
		if x == nil {
			return x
		}
		if len(x.env) == 0 {
			return x
		}
		if n, ok := c.funcs[x]; ok {
			return n
		}
		n := &Func{fn: x.fn}
		c.funcs[x] = n
		n.env = c.vals(x.env)
		return n
	case *ErrV:
		if x == nil {
			return x
		}
		if n, ok := c.errs[x]; ok {
			return n
		}
		n := &ErrV{msg: x.msg}
		c.errs[x] = n
		n.wraps = c.vals(x.wraps)
		return n
	}
	panic(fmt.Sprintf("deepCopy: unsupported %T", v))
}
