package main

import (
	"fmt"
	"go/token"
	"go/types"
	"strings"

	"golang.org/x/tools/go/ssa"
)

// ---------- native stub objects (net.Conn, context, addr ...) ----------

type nativeObj interface {
	invoke(ex *Exec, method string, args []Value) Value
}
type nativeCall struct {
	name string
	recv nativeObj
}

var stubT = types.NewNamed(types.NewTypeName(0, nil, "verifStub", nil), types.NewStruct(nil, nil), nil)
var errType = types.Universe.Lookup("error").Type()

func nativeIface(o nativeObj) Iface { return Iface{t: stubT, v: o} }

// ---------- iteration ----------

type iterV struct {
	m     *Map
	ids   []uint64
	str   Str
	i     int
	isStr bool
}

var permTable = map[int][][]int{}

func perms(n int) [][]int {
	if p, ok := permTable[n]; ok {
		return p
	}
	var res [][]int
	var rec func(cur []int, used []bool)
	rec = func(cur []int, used []bool) {
		if len(cur) == n {
			res = append(res, append([]int{}, cur...))
			return
		}
		for i := 0; i < n; i++ {
			if !used[i] {
				used[i] = true
				rec(append(cur, i), used)
				used[i] = false
			}
		}
	}
	rec(nil, make([]bool, n))
	return res
}

func init() {
	for n := 0; n <= 5; n++ {
		permTable[n] = perms(n)
	}
}

func (ex *Exec) rangeStart(src Value) Value {
	if s, ok := src.(Str); ok {
		return &iterV{str: s, isStr: true}
	}
	m := src.(*Map)
	it := &iterV{m: m}
	if m == nil {
		return it
	}
	if ex.sh.raceCheck && ex.gor != nil {
		ex.raceAccess(ex.racePseudo(m, "map"), nil, false, false, token.NoPos)
	}
	n := len(m.ids)
	it.ids = append([]uint64{}, m.ids...)
	if n >= 2 && !ex.noMapPerm {
		if n <= ex.sh.permLimit {
			ps := permTable[n]
			k := ex.choose(len(ps))
			ex.nd = append(ex.nd, ndEntry{Kind: "maporder", Int: k})
			p := ps[k]
			for i := range p {
				it.ids[i] = m.ids[p[i]]
			}
		} else {
			ex.res.mapTrunc++
		}
	}
	return it
}

func (ex *Exec) rangeNext(it *iterV, x *ssa.Next) Value {
	if it.isStr {
		if it.i >= len(it.str) {
			return Tuple{tFalse, Const(64, 0), Const(32, 0)}
		}
		c := it.str[it.i]
		if !c.IsConst() || c.val >= 0x80 {
			if ex.branch(Bin(">=", c, Const(8, 0x80), false)) {
				panic(pathAbort{"UNSUPPORTED range over non-ASCII string"})
			}
		}
		it.i++
		return Tuple{tTrue, Const(64, uint64(it.i-1)), Resize(c, 32, false)}
	}
	tt := x.Type().(*types.Tuple)
	for it.i < len(it.ids) {
		id := it.ids[it.i]
		it.i++
		for j, mid := range it.m.ids {
			if mid == id {
				return Tuple{tTrue, clone(it.m.keys[j]), clone(it.m.vals[j])}
			}
		}
		// entry deleted during iteration: skipped
	}
	return Tuple{tFalse, zero(tt.At(1).Type()), zero(tt.At(2).Type())}
}

// ---------- channels ----------

func (ex *Exec) chanSend(ch *ChanV, v Value) {
	if ch == nil {
		ex.block(func() bool { return false }, "send on nil channel")
	}
	for {
		if ch.closed {
			panic(&goPanic{msg: "send on closed channel"})
		}
		if len(ch.q) < ch.cap {
			ex.raceAcquire(fmt.Sprintf("chr:%p", ch))
			ex.raceRelease(fmt.Sprintf("ch:%p", ch))
			ch.q = append(ch.q, clone(v))
			return
		}
		if ch.cap == 0 {
			// rendezvous: model as capacity-1 handoff (receiver must take it)
			if len(ch.q) == 0 {
				ex.raceRelease(fmt.Sprintf("ch:%p", ch))
				ch.q = append(ch.q, clone(v))
				ex.block(func() bool { return len(ch.q) == 0 || ch.closed }, "unbuffered send")
				ex.raceAcquire(fmt.Sprintf("chr:%p", ch))
				return
			}
		}
		ex.block(func() bool { return len(ch.q) < ch.cap || ch.closed || (ch.cap == 0 && len(ch.q) == 0) }, "chan send")
	}
}

func (ex *Exec) chanRecv(ch *ChanV, et types.Type) (Value, bool) {
	if ch == nil {
		ex.block(func() bool { return false }, "receive on nil channel")
	}
	for {
		if len(ch.q) > 0 {
			v := ch.q[0]
			ch.q = ch.q[1:]
			ex.raceAcquire(fmt.Sprintf("ch:%p", ch))
			ex.raceRelease(fmt.Sprintf("chr:%p", ch))
			return v, true
		}
		if ch.closed {
			ex.raceAcquire(fmt.Sprintf("ch:%p", ch))
			return zero(et), false
		}
		ex.block(func() bool { return len(ch.q) > 0 || ch.closed }, "chan receive")
	}
}

func (ex *Exec) selectStmt(fr *frame, x *ssa.Select) Value {
	type st struct {
		ch   *ChanV
		send Value
		dir  types.ChanDir
	}
	states := make([]st, len(x.States))
	for i, s := range x.States {
		states[i].ch, _ = ex.get(fr, s.Chan).(*ChanV)
		states[i].dir = s.Dir
		if s.Send != nil {
			states[i].send = ex.get(fr, s.Send)
		}
	}
	ready := func() []int {
		var r []int
		for i, s := range states {
			if s.ch == nil {
				continue
			}
			if s.dir == types.SendOnly {
				if s.ch.closed || len(s.ch.q) < s.ch.cap {
					r = append(r, i)
				}
			} else if len(s.ch.q) > 0 || s.ch.closed {
				r = append(r, i)
			}
		}
		return r
	}
	var r []int
	for {
		r = ready()
		if len(r) > 0 || !x.Blocking {
			break
		}
		ex.block(func() bool { return len(ready()) > 0 }, "select")
	}
	// result tuple: index, recvOk, then one value per receive state
	res := Tuple{nil, tFalse}
	for _, s := range x.States {
		if s.Dir == types.RecvOnly {
			res = append(res, zero(s.Chan.Type().Underlying().(*types.Chan).Elem()))
		}
	}
	if len(r) == 0 {
		res[0] = Const(64, ^uint64(0))
		return res
	}
	pick := r[0]
	if len(r) > 1 {
		k := ex.choose(len(r))
		ex.nd = append(ex.nd, ndEntry{Kind: "select", Int: k})
		pick = r[k]
	}
	res[0] = Const(64, uint64(pick))
	s := states[pick]
	if s.dir == types.SendOnly {
		if s.ch.closed {
			panic(&goPanic{msg: "send on closed channel"})
		}
		ex.raceAcquire(fmt.Sprintf("chr:%p", s.ch))
		ex.raceRelease(fmt.Sprintf("ch:%p", s.ch))
		s.ch.q = append(s.ch.q, clone(s.send))
		return res
	}
	ex.raceAcquire(fmt.Sprintf("ch:%p", s.ch))
	ex.raceRelease(fmt.Sprintf("chr:%p", s.ch))
	ri := 2
	for i, xs := range x.States {
		if xs.Dir == types.RecvOnly {
			if i == pick {
				if len(s.ch.q) > 0 {
					res[ri] = s.ch.q[0]
					s.ch.q = s.ch.q[1:]
					res[1] = tTrue
				}
				break
			}
			ri++
		}
	}
	return res
}

// ---------- goroutines: cooperative, one host goroutine per interpreted goroutine ----------

type gstate struct {
	id        int
	depth     int
	stack     []*ssa.Function
	panicking []*frame
	wake      chan struct{}
	done      bool
	blocked   bool
	canRun    func() bool
	what      string
	held      []heldLock
	vc        vclock // happens-before clock (race analysis)
}

type sched struct {
	gs          []*gstate
	cur         *gstate
	abort       interface{}
	killed      bool
	preemptLeft int
	schedLeft   int // -1: unlimited
	exited      chan struct{}
	live        int
}

type killSignal struct{}

func (ex *Exec) initSched() {
	main := &gstate{id: 0, wake: make(chan struct{}, 1)}
	ex.gor = &sched{gs: []*gstate{main}, cur: main, exited: make(chan struct{}, 64), preemptLeft: ex.sh.preempt, schedLeft: ex.sh.schedLimit}
}

func (ex *Exec) saveG() {
	g := ex.gor.cur
	g.depth, g.stack, g.panicking = ex.depth, ex.stack, ex.panicking
}
func (ex *Exec) loadG(g *gstate) {
	ex.gor.cur = g
	ex.depth, ex.stack, ex.panicking = g.depth, g.stack, g.panicking
}

func (ex *Exec) spawn(fnv Value, args []Value) {
	sc := ex.gor
	g := &gstate{id: len(sc.gs), wake: make(chan struct{}, 1)}
	sc.gs = append(sc.gs, g)
	sc.live++
	ex.raceFork(sc.cur, g)
	go func() {
		<-g.wake
		defer func() { sc.exited <- struct{}{} }()
		if sc.killed {
			return
		}
		defer func() {
			r := recover()
			if _, ok := r.(killSignal); ok {
				return
			}
			g.done = true
			ex.saveG()
			if r != nil {
				if gp, ok := r.(*goPanic); ok {
					// an unrecovered panic in a goroutine crashes the process
					gp.msg = "goroutine: " + gp.msg
				}
				sc.abort = r
				main := sc.gs[0]
				ex.loadG(main)
				main.wake <- struct{}{}
				return
			}
			pick := ex.pickNext(g)
			if pick == nil {
				return
			}
			ex.loadG(pick)
			pick.blocked = false
			pick.wake <- struct{}{}
		}()
		ex.doCall(fnv, args)
	}()
	ex.syncPoint("go")
}

func (ex *Exec) runnable(except *gstate) []*gstate {
	var r []*gstate
	for _, g := range ex.gor.gs {
		if g.done || g == except {
			continue
		}
		if !g.blocked || g.canRun() {
			r = append(r, g)
		}
	}
	return r
}

// pickNext chooses the goroutine that runs next when g is done or blocked. It returns g itself if g
// can continue and is chosen, nil if nothing is left to run (only when main is done).
func (ex *Exec) pickNext(g *gstate) *gstate {
	sc := ex.gor
	r := ex.runnable(g)
	if !g.done && g.canRun != nil && g.canRun() {
		r = append([]*gstate{g}, r...)
	}
	if len(r) == 0 {
		main := sc.gs[0]
		if main.done {
			return nil
		}
		var who []string
		for _, x := range sc.gs {
			if !x.done {
				who = append(who, fmt.Sprintf("g%d:%s", x.id, x.what))
			}
		}
		a := pathAbort{"DEADLOCK all goroutines blocked: " + strings.Join(who, ", ")}
		if g == main {
			panic(a)
		}
		sc.abort = a
		return main
	}
	pick := r[0]
	if len(r) > 1 && sc.schedLeft != 0 {
		k := ex.choose(len(r))
		ex.nd = append(ex.nd, ndEntry{Kind: "sched", Int: r[k].id})
		pick = r[k]
		if k != 0 && sc.schedLeft > 0 {
			sc.schedLeft--
		}
	}
	return pick
}

func (ex *Exec) handTo(g, pick *gstate) {
	sc := ex.gor
	ex.saveG()
	ex.loadG(pick)
	pick.blocked = false
	pick.wake <- struct{}{}
	<-g.wake
	if sc.killed {
		panic(killSignal{})
	}
	if g.id == 0 && sc.abort != nil {
		a := sc.abort
		sc.abort = nil
		panic(a)
	}
	g.blocked = false
}

// block suspends the current goroutine until canRun() holds.
func (ex *Exec) block(canRun func() bool, what string) {
	g := ex.gor.cur
	for !canRun() {
		g.blocked, g.canRun, g.what = true, canRun, what
		pick := ex.pickNext(g)
		if pick == g {
			break
		}
		ex.handTo(g, pick)
	}
	g.blocked = false
}

// syncPoint is a potential pre-emption point (bounded number of pre-emptions per path).
func (ex *Exec) syncPoint(what string) {
	sc := ex.gor
	if sc == nil || sc.preemptLeft <= 0 || len(sc.gs) < 2 {
		return
	}
	if ex.sh.params["PREAT"] == 1 && !strings.HasPrefix(what, "Unlock") && !strings.HasPrefix(what, "RUnlock") {
		return // PREAT=1: pre-empt only right after a lock is released (the "use after unlock" window)
	}
	g := sc.cur
	others := ex.runnable(g)
	if len(others) == 0 {
		return
	}
	k := ex.choose(len(others) + 1)
	ex.nd = append(ex.nd, ndEntry{Kind: "preempt", Int: k})
	if k == 0 {
		return
	}
	sc.preemptLeft--
	g.blocked, g.canRun, g.what = true, func() bool { return true }, "preempted at "+what
	ex.handTo(g, others[k-1])
}

// drain lets all other goroutines run until each is blocked or done.
func (ex *Exec) drain() {
	g := ex.gor.cur
	ex.block(func() bool { return len(ex.runnable(g)) == 0 }, "drain")
}

// killAll terminates host goroutines of unfinished interpreted goroutines at path end.
func (ex *Exec) killAll() {
	sc := ex.gor
	if sc == nil {
		return
	}
	sc.killed = true
	for _, g := range sc.gs[1:] {
		select {
		case g.wake <- struct{}{}:
		default:
		}
	}
	for i := 0; i < sc.live; i++ {
		<-sc.exited
	}
	sc.live = 0
}

// ---------- lock tracking ----------

type heldLock struct {
	key   string
	class string
	read  bool
}

type lockState struct {
	writer  int // goroutine id + 1, 0 = none
	readers map[int]int
	at      Ptr    // where the mutex lives (for the copy-of-a-held-lock check)
	class   string
}

// copyOfHeldLock: a struct value that embeds a sync.Mutex/RWMutex is being copied out of memory (p is loaded as a
// whole) while that mutex is held. The copy is born locked and nobody will ever unlock it: the first Lock (or,
// for a read-locked RWMutex, the first write Lock) on the copy blocks for ever. Reported as a lock violation.
func (ex *Exec) copyOfHeldLock(p Ptr) {
	if ex.locks == nil || p.obj == nil || !ex.sh.lockCheck {
		return
	}
	for _, ls := range ex.locks.st {
		if ls.at.obj != p.obj || (ls.writer == 0 && len(ls.readers) == 0) {
			continue
		}
		// the mutex lies inside the loaded region iff the loaded path is a prefix of the mutex's path; loading
		// the mutex's own (private) fields, as sync itself would, is not a copy of the enclosing value
		if len(p.path) >= len(ls.at.path) {
			continue
		}
		inside := true
		for i := range p.path {
			if p.path[i] != ls.at.path[i] {
				inside = false
				break
			}
		}
		if inside {
			site := ""
			if n := len(ex.stack); n > 0 {
				site = fnName(ex.stack[n-1])
			}
			ex.reportLock(fmt.Sprintf("a value containing %s is copied at %s while that mutex is held: the copy is born locked and is never unlocked", ls.class, site), "copy-of-held-lock:"+ls.class)
		}
	}
}

type lockTracker struct {
	st map[string]*lockState
}

func (ex *Exec) lockClass(p Ptr) string {
	if p.obj == nil {
		return "nil"
	}
	t := p.obj.typ
	name := "?"
	if t != nil {
		name = types.TypeString(t, func(p *types.Package) string { return p.Name() })
		for _, i := range p.path {
			switch u := t.Underlying().(type) {
			case *types.Struct:
				if i < u.NumFields() {
					name += "." + u.Field(i).Name()
					t = u.Field(i).Type()
				}
			case *types.Array:
				name += "[]"
				t = u.Elem()
			}
		}
	} else if p.obj.note != "" {
		name = p.obj.note
	}
	return name
}

func (ex *Exec) lockOp(p Ptr, op string) {
	if ex.locks == nil {
		ex.locks = &lockTracker{st: map[string]*lockState{}}
	}
	if p.obj == nil {
		panic(&goPanic{msg: "invalid memory address or nil pointer dereference (mutex)"})
	}
	key := p.key()
	ls := ex.locks.st[key]
	if ls == nil {
		ls = &lockState{readers: map[int]int{}}
		ex.locks.st[key] = ls
	}
	g := ex.gor.cur
	class := ex.lockClass(p)
	ls.at, ls.class = p, class
	site := ""
	if n := len(ex.stack); n > 0 {
		site = fnName(ex.stack[n-1])
	}
	switch op {
	case "Lock", "RLock":
		read := op == "RLock"
		ex.res.lockSites[site+" "+op+" "+class] = true
		// same-goroutine re-acquisition
		for _, h := range g.held {
			if h.key == key {
				ex.reportLock(fmt.Sprintf("%s of %s at %s while the same goroutine already holds it (%s)", op, class, site, map[bool]string{true: "read", false: "write"}[h.read]), "reacquire:"+class)
				if !read || !h.read {
					panic(pathAbort{"SELF-DEADLOCK " + class})
				}
			}
		}
		for _, h := range g.held {
			if h.class != class {
				ex.res.lockEdges[h.class+" -> "+class] = site
			}
		}
		ex.syncPoint(op + " " + class)
		if read {
			ex.block(func() bool { return ls.writer == 0 }, "RLock "+class)
			ls.readers[g.id]++
		} else {
			ex.block(func() bool { return ls.writer == 0 && len(ls.readers) == 0 }, "Lock "+class)
			ls.writer = g.id + 1
		}
		g.held = append(g.held, heldLock{key, class, read})
		ex.raceAcquire("mu:w:" + key)
		if !read {
			ex.raceAcquire("mu:r:" + key)
		}
	case "Unlock", "RUnlock":
		read := op == "RUnlock"
		found := false
		for i := len(g.held) - 1; i >= 0; i-- {
			if g.held[i].key == key && g.held[i].read == read {
				g.held = append(g.held[:i:i], g.held[i+1:]...)
				found = true
				break
			}
		}
		if read {
			ex.raceRelease("mu:r:" + key)
		} else {
			ex.raceRelease("mu:w:" + key)
		}
		if read {
			if ls.readers[g.id] > 0 {
				ls.readers[g.id]--
				if ls.readers[g.id] == 0 {
					delete(ls.readers, g.id)
				}
			} else if !found {
				panic(&goPanic{msg: "sync: RUnlock of unlocked RWMutex"})
			}
		} else {
			if ls.writer == 0 {
				panic(&goPanic{msg: "sync: unlock of unlocked mutex"})
			}
			ls.writer = 0
		}
		ex.syncPoint(op + " " + class)
	}
}

func (ex *Exec) reportLock(msg, label string) {
	if !ex.sh.lockCheck {
		return // lock discipline is C32's property; other checks do not report it
	}
	ex.recordViolation("lock", label, msg, nil)
}
