package main

import (
	"fmt"
	"go/types"
	"strings"

	"golang.org/x/tools/go/ssa"
)

type intrinsicFn func(ex *Exec, fn *ssa.Function, args []Value) Value

type noIntrinsic struct{}

func (sh *Shared) intrinsicFor(fn *ssa.Function) intrinsicFn {
	if v, ok := sh.intrCache.Load(fn); ok {
		if f, ok := v.(intrinsicFn); ok {
			return f
		}
		return nil
	}
	f := sh.resolveIntrinsic(fn)
	if f == nil {
		sh.intrCache.Store(fn, noIntrinsic{})
		return nil
	}
	sh.intrCache.Store(fn, f)
	return f
}

func (sh *Shared) resolveIntrinsic(fn *ssa.Function) intrinsicFn {
	name := fn.String()
	if fn.Origin() != nil {
		name = fn.Origin().String()
	}
	// harness runtime
	if fn.Pkg != nil && strings.HasPrefix(fn.Name(), "v") && len(fn.Name()) > 1 && fn.Name()[1] >= 'A' && fn.Name()[1] <= 'Z' && fn.Signature.Recv() == nil {
		pos := sh.prog.Fset.Position(fn.Pos())
		if strings.Contains(pos.Filename, "zz_verif_vrt") {
			if f, ok := vrtTable[fn.Name()]; ok {
				return f
			}
			return func(ex *Exec, fn *ssa.Function, args []Value) Value {
				panic(pathAbort{"UNSUPPORTED harness runtime function " + fn.Name()})
			}
		}
	}
	if f, ok := intrinsicTable[name]; ok {
		return f
	}
	// environment stubs written in Go in a harness file: the callee is replaced by the harness function
	if tgt, ok := redirectTable[name]; ok {
		if p := sh.prog.ImportedPackage(tgt[0]); p != nil {
			if target := p.Func(tgt[1]); target != nil {
				return func(ex *Exec, fn *ssa.Function, args []Value) Value { return ex.call(target, args, nil) }
			}
		}
		return func(ex *Exec, fn *ssa.Function, args []Value) Value {
			panic(pathAbort{"UNSUPPORTED " + fn.String() + ": harness stub " + tgt[1] + " not loaded"})
		}
	}
	switch {
	case strings.HasPrefix(name, "(*log/slog.Logger)."):
		if fn.Name() == "With" || fn.Name() == "WithGroup" {
			return func(ex *Exec, fn *ssa.Function, args []Value) Value { return args[0] }
		}
		if fn.Name() == "Enabled" {
			return func(ex *Exec, fn *ssa.Function, args []Value) Value { return tFalse }
		}
		return retZero
	case strings.HasPrefix(name, "log/slog."):
		return retZero
	case fn.Name() == "init" && fn.Pkg != nil && !sh.initPkgs[fn.Pkg.Pkg.Path()]:
		return retZero
	}
	return nil
}

func retZero(ex *Exec, fn *ssa.Function, args []Value) Value { return zeroResults(fn) }

// redirectTable: library entry points replaced by a stub written in Go in the harness of the named package
// (package path, function). The stub is part of the claim and is listed in the check's evidence.
var redirectTable = map[string][2]string{
	"(*github.com/gorilla/websocket.Conn).NextReader":   {"github.com/mochi-mqtt/server/v2/listeners", "vStubWsNextReader"},
	"(*github.com/gorilla/websocket.Conn).WriteMessage": {"github.com/mochi-mqtt/server/v2/listeners", "vStubWsWriteMessage"},
}

// lookupMethod returns the exported method name of type t, or nil if t has no such method.
func (ex *Exec) lookupMethod(t types.Type, name string) *ssa.Function {
	if t == errVType || t == stubT {
		return nil
	}
	sel := ex.prog.MethodSets.MethodSet(t).Lookup(nil, name)
	if sel == nil {
		return nil
	}
	return ex.prog.MethodValue(sel)
}

func (ex *Exec) sliceTerms(s Slice) []*Term {
	out := make([]*Term, s.len)
	for i := 0; i < s.len; i++ {
		out[i] = s.arr.v.(Array)[s.off+i].(*Term)
	}
	return out
}

func mkSlice(ts []*Term) Slice {
	arr := make(Array, len(ts))
	for i, t := range ts {
		arr[i] = t
	}
	return Slice{arr: &Obj{v: arr}, len: len(ts), cap: len(ts)}
}

func strOf(v Value) string {
	s := v.(Str)
	b := make([]byte, len(s))
	for i, t := range s {
		if !t.IsConst() {
			b[i] = '?'
			continue
		}
		b[i] = byte(t.val)
	}
	return string(b)
}

func isConcreteStr(s Str) bool {
	for _, t := range s {
		if !t.IsConst() {
			return false
		}
	}
	return true
}

func errVal(e *ErrV) Iface { return Iface{t: errVType, v: e} }

var errVType = types.NewNamed(types.NewTypeName(0, nil, "verifError", nil), types.NewStruct(nil, nil), nil)

func (ex *Exec) newErr(msg string, wraps ...Value) Iface {
	return errVal(&ErrV{msg: strConst(msg), wraps: wraps})
}

// errorsIs implements errors.Is over engine and program error values.
func (ex *Exec) errorsIs(err, target Iface) *Term {
	if err.t == nil || target.t == nil {
		return BoolC(err.t == nil && target.t == nil)
	}
	res := tFalse
	var walk func(e Iface, depth int)
	walk = func(e Iface, depth int) {
		if e.t == nil || depth > 8 {
			return
		}
		// comparable check: identical dynamic types
		if types.Identical(e.t, target.t) {
			if types.Comparable(e.t) || e.t == errVType {
				res = Or(res, ex.valEq(e.v, target.v))
			}
		}
		if ev, ok := e.v.(*ErrV); ok {
			for _, w := range ev.wraps {
				walk(w.(Iface), depth+1)
			}
			return
		}
		// Is method
		if m := ex.lookupMethod(e.t,"Is"); m != nil && m.Signature.Params().Len() == 1 {
			r := ex.call(m, []Value{e.v, target}, nil)
			res = Or(res, r.(*Term))
		}
		if m := ex.lookupMethod(e.t,"Unwrap"); m != nil && m.Signature.Params().Len() == 0 {
			r := ex.call(m, []Value{e.v}, nil)
			if ri, ok := r.(Iface); ok {
				walk(ri, depth+1)
			} else if rs, ok := r.(Slice); ok {
				for _, x := range sliceElems(rs) {
					walk(x.(Iface), depth+1)
				}
			}
		}
	}
	walk(err, 0)
	return res
}

// utf8ValidTerm encodes utf8.Valid over a concrete-length vector of symbolic bytes (no forking).
func utf8ValidTerm(b []*Term) *Term {
	n := len(b)
	memo := make([]*Term, n+1)
	memo[n] = tTrue
	rng := func(t *Term, lo, hi uint64) *Term {
		return And(Bin(">=", t, Const(8, lo), false), Bin("<=", t, Const(8, hi), false))
	}
	cont := func(t *Term) *Term { return rng(t, 0x80, 0xBF) }
	for i := n - 1; i >= 0; i-- {
		c := b[i]
		v := And(Bin("<", c, Const(8, 0x80), false), memo[i+1])
		if i+1 < n {
			v = Or(v, And(And(rng(c, 0xC2, 0xDF), cont(b[i+1])), memo[i+2]))
		}
		if i+2 < n {
			second := Or(Or(
				And(Eq(c, Const(8, 0xE0)), rng(b[i+1], 0xA0, 0xBF)),
				And(Or(rng(c, 0xE1, 0xEC), rng(c, 0xEE, 0xEF)), cont(b[i+1]))),
				And(Eq(c, Const(8, 0xED)), rng(b[i+1], 0x80, 0x9F)))
			v = Or(v, And(And(second, cont(b[i+2])), memo[i+3]))
		}
		if i+3 < n {
			second := Or(Or(
				And(Eq(c, Const(8, 0xF0)), rng(b[i+1], 0x90, 0xBF)),
				And(rng(c, 0xF1, 0xF3), cont(b[i+1]))),
				And(Eq(c, Const(8, 0xF4)), rng(b[i+1], 0x80, 0x8F)))
			v = Or(v, And(And(And(second, cont(b[i+2])), cont(b[i+3])), memo[i+4]))
		}
		memo[i] = v
	}
	return memo[0]
}

func (ex *Exec) indexByte(ts []*Term, c *Term) Value {
	for i, t := range ts {
		if ex.branch(Eq(t, c)) {
			return Const(64, uint64(i))
		}
	}
	return Const(64, ^uint64(0))
}

// indexStr: first index of sep in s (forking on symbolic bytes), -1 if absent.
func (ex *Exec) indexStr(s, sep Str) int {
	if len(sep) == 0 {
		return 0
	}
	for i := 0; i+len(sep) <= len(s); i++ {
		if ex.branch(ex.strEq(s[i:i+len(sep)], sep)) {
			return i
		}
	}
	return -1
}

func toStr(v Value) Str {
	switch x := v.(type) {
	case Str:
		return x
	case Slice:
		out := make(Str, x.len)
		for i := 0; i < x.len; i++ {
			out[i] = x.arr.v.(Array)[x.off+i].(*Term)
		}
		return out
	}
	panic(pathAbort{fmt.Sprintf("ENGINE toStr of %T", v)})
}

func asciiLower(t *Term) *Term {
	isUp := And(Bin(">=", t, Const(8, 'A'), false), Bin("<=", t, Const(8, 'Z'), false))
	return Ite(isUp, Bin("+", t, Const(8, 32), false), t)
}

func (ex *Exec) requireASCII(s Str, what string) {
	c := tTrue
	for _, t := range s {
		c = And(c, Bin("<", t, Const(8, 0x80), false))
	}
	if !ex.branch(c) {
		panic(pathAbort{"UNSUPPORTED non-ASCII input to " + what})
	}
}

// formatUint renders a symbolic unsigned value in base 10 (forks on the number of digits).
func (ex *Exec) formatUint(t *Term) Str {
	if t.IsConst() {
		return strConst(fmt.Sprintf("%d", t.val))
	}
	w := t.width
	// number of digits
	maxDigits := map[int]int{8: 3, 16: 5, 32: 10, 64: 20}[w]
	pow := uint64(1)
	alts := []alt{}
	prev := tTrue
	for d := 1; d <= maxDigits; d++ {
		var c *Term
		if d == maxDigits {
			c = prev
		} else {
			pow *= 10
			lt := Bin("<", t, Const(w, pow), false)
			c = And(prev, lt)
			prev = And(prev, Not(lt))
		}
		alts = append(alts, alt{d, c})
	}
	nd := ex.decide(alts)
	out := make(Str, nd)
	x := t
	for i := nd - 1; i >= 0; i-- {
		out[i] = Bin("+", Resize(Bin("%", x, Const(w, 10), false), 8, false), Const(8, '0'), false)
		x = Bin("/", x, Const(w, 10), false)
	}
	return out
}

var intrinsicTable = map[string]intrinsicFn{}

func mutexOp(op string) intrinsicFn {
	return func(ex *Exec, fn *ssa.Function, args []Value) Value {
		ex.lockOp(args[0].(Ptr), op)
		return nil
	}
}

func timeStruct(sec, extra *Term) Struct { return Struct{extra, sec, Ptr{}} }

func init() {
	T := intrinsicTable
	// ---- sync ----
	T["(*sync.Mutex).Lock"] = mutexOp("Lock")
	T["(*sync.Mutex).Unlock"] = mutexOp("Unlock")
	T["(*sync.RWMutex).Lock"] = mutexOp("Lock")
	T["(*sync.RWMutex).Unlock"] = mutexOp("Unlock")
	T["(*sync.RWMutex).RLock"] = mutexOp("RLock")
	T["(*sync.RWMutex).RUnlock"] = mutexOp("RUnlock")
	T["(*sync.WaitGroup).Add"] = func(ex *Exec, fn *ssa.Function, args []Value) Value {
		k := args[0].(Ptr).key()
		ex.wg[k] += int(sext(args[1].(*Term).val, 64))
		ex.raceSync("wg:"+k, false, true)
		ex.syncPoint("wg.Add")
		return nil
	}
	T["(*sync.WaitGroup).Done"] = func(ex *Exec, fn *ssa.Function, args []Value) Value {
		k := args[0].(Ptr).key()
		ex.raceSync("wg:"+k, false, true)
		ex.wg[k]--
		if ex.wg[k] < 0 {
			panic(&goPanic{msg: "sync: negative WaitGroup counter"})
		}
		ex.syncPoint("wg.Done")
		return nil
	}
	T["(*sync.WaitGroup).Wait"] = func(ex *Exec, fn *ssa.Function, args []Value) Value {
		k := args[0].(Ptr).key()
		ex.block(func() bool { return ex.wg[k] == 0 }, "WaitGroup.Wait")
		ex.raceSync("wg:"+k, true, false)
		return nil
	}
	T["(*sync.Once).Do"] = func(ex *Exec, fn *ssa.Function, args []Value) Value {
		key := args[0].(Ptr).key()
		if !ex.once[key] {
			ex.once[key] = true
			ex.doCall(args[1], nil)
			ex.raceSync("once:"+key, false, true)
		}
		ex.raceSync("once:"+key, true, false)
		return nil
	}
	T["(*sync.Pool).Get"] = func(ex *Exec, fn *ssa.Function, args []Value) Value {
		p := args[0].(Ptr)
		key := p.key()
		ex.raceSync("pool:"+key, true, false)
		bag := ex.pools[key]
		pick := -1
		if len(bag) > 0 {
			if ex.sh.poolAdversarial {
				k := ex.choose(len(bag) + 1)
				ex.nd = append(ex.nd, ndEntry{Kind: "pool", Int: k})
				pick = k - 1
			} else {
				pick = len(bag) - 1
			}
		}
		if pick >= 0 {
			v := bag[pick]
			ex.pools[key] = append(bag[:pick:pick], bag[pick+1:]...)
			return v
		}
		st := p.load().(Struct)
		f, _ := st[len(st)-1].(*Func)
		if f == nil {
			return Iface{}
		}
		return ex.call(f.fn, nil, f.env)
	}
	T["(*sync.Pool).Put"] = func(ex *Exec, fn *ssa.Function, args []Value) Value {
		key := args[0].(Ptr).key()
		ex.raceSync("pool:"+key, false, true)
		ex.pools[key] = append(ex.pools[key], args[1])
		return nil
	}
	// ---- sync/atomic ----
	for _, ty := range []string{"Int32", "Int64", "Uint32", "Uint64", "Uintptr", "Pointer"} {
		T["sync/atomic.Load"+ty] = func(ex *Exec, fn *ssa.Function, args []Value) Value {
			ex.syncPoint("atomic.Load")
			ex.raceAtomic(args[0].(Ptr), false)
			return args[0].(Ptr).load()
		}
		T["sync/atomic.Store"+ty] = func(ex *Exec, fn *ssa.Function, args []Value) Value {
			ex.syncPoint("atomic.Store")
			ex.raceAtomic(args[0].(Ptr), true)
			args[0].(Ptr).store(args[1])
			return nil
		}
		T["sync/atomic.Add"+ty] = func(ex *Exec, fn *ssa.Function, args []Value) Value {
			ex.syncPoint("atomic.Add")
			p := args[0].(Ptr)
			ex.raceAtomic(p, true)
			nv := Bin("+", p.load().(*Term), args[1].(*Term), true)
			p.store(nv)
			return nv
		}
		T["sync/atomic.Swap"+ty] = func(ex *Exec, fn *ssa.Function, args []Value) Value {
			ex.syncPoint("atomic.Swap")
			p := args[0].(Ptr)
			ex.raceAtomic(p, true)
			old := p.load()
			p.store(args[1])
			return old
		}
		T["sync/atomic.CompareAndSwap"+ty] = func(ex *Exec, fn *ssa.Function, args []Value) Value {
			ex.syncPoint("atomic.CAS")
			p := args[0].(Ptr)
			ex.raceAtomic(p, true)
			if ex.branch(ex.valEq(p.load(), args[1])) {
				p.store(args[2])
				return tTrue
			}
			return tFalse
		}
		// typed atomics: struct { _ noCopy; [_ align64;] v T }: value is the last field
		last := func(p Ptr) Ptr {
			st := p.load().(Struct)
			return p.field(len(st) - 1)
		}
		T["(*sync/atomic."+ty+").Load"] = func(ex *Exec, fn *ssa.Function, args []Value) Value {
			ex.syncPoint("atomic.Load")
			ex.raceAtomic(last(args[0].(Ptr)), false)
			return last(args[0].(Ptr)).load()
		}
		T["(*sync/atomic."+ty+").Store"] = func(ex *Exec, fn *ssa.Function, args []Value) Value {
			ex.syncPoint("atomic.Store")
			ex.raceAtomic(last(args[0].(Ptr)), true)
			last(args[0].(Ptr)).store(args[1])
			return nil
		}
		T["(*sync/atomic."+ty+").Add"] = func(ex *Exec, fn *ssa.Function, args []Value) Value {
			ex.syncPoint("atomic.Add")
			p := last(args[0].(Ptr))
			ex.raceAtomic(p, true)
			nv := Bin("+", p.load().(*Term), args[1].(*Term), true)
			p.store(nv)
			return nv
		}
	}
	T["(*sync/atomic.Bool).Load"] = func(ex *Exec, fn *ssa.Function, args []Value) Value {
		ex.syncPoint("atomic.Load")
		ex.raceAtomic(args[0].(Ptr).field(1), false)
		return Not(Eq(args[0].(Ptr).field(1).load().(*Term), Const(32, 0)))
	}
	T["(*sync/atomic.Bool).Store"] = func(ex *Exec, fn *ssa.Function, args []Value) Value {
		ex.syncPoint("atomic.Store")
		ex.raceAtomic(args[0].(Ptr).field(1), true)
		args[0].(Ptr).field(1).store(Ite(args[1].(*Term), Const(32, 1), Const(32, 0)))
		return nil
	}
	T["(*sync/atomic.Value).Load"] = func(ex *Exec, fn *ssa.Function, args []Value) Value {
		ex.syncPoint("atomic.Load")
		ex.raceAtomic(args[0].(Ptr).field(0), false)
		return args[0].(Ptr).field(0).load()
	}
	T["(*sync/atomic.Value).Store"] = func(ex *Exec, fn *ssa.Function, args []Value) Value {
		ex.syncPoint("atomic.Store")
		if args[1].(Iface).t == nil {
			panic(&goPanic{msg: "sync/atomic: store of nil value into Value"})
		}
		ex.raceAtomic(args[0].(Ptr).field(0), true)
		args[0].(Ptr).field(0).store(args[1])
		return nil
	}
	// ---- time ----
	T["time.Now"] = func(ex *Exec, fn *ssa.Function, args []Value) Value {
		return timeStruct(ex.now(), Const(64, 0))
	}
	T["(time.Time).Unix"] = func(ex *Exec, fn *ssa.Function, args []Value) Value {
		st := args[0].(Struct)
		extra := st[0].(*Term)
		if extra.IsConst() && extra.val == 0 {
			return st[1]
		}
		return Bin("+", st[1].(*Term), Bin("/", extra, Const(64, 1000000000), true), true)
	}
	T["(time.Time).UnixNano"] = func(ex *Exec, fn *ssa.Function, args []Value) Value {
		st := args[0].(Struct)
		return Bin("+", Bin("*", st[1].(*Term), Const(64, 1000000000), true), st[0].(*Term), true)
	}
	T["(time.Time).Add"] = func(ex *Exec, fn *ssa.Function, args []Value) Value {
		st := args[0].(Struct)
		return timeStruct(st[1].(*Term), Bin("+", st[0].(*Term), args[1].(*Term), true))
	}
	T["(time.Time).Sub"] = func(ex *Exec, fn *ssa.Function, args []Value) Value {
		a, b := args[0].(Struct), args[1].(Struct)
		ds := Bin("-", a[1].(*Term), b[1].(*Term), true)
		de := Bin("-", a[0].(*Term), b[0].(*Term), true)
		if ds.IsConst() && ds.val == 0 {
			return de
		}
		return Bin("+", Bin("*", ds, Const(64, 1000000000), true), de, true)
	}
	T["(time.Time).IsZero"] = func(ex *Exec, fn *ssa.Function, args []Value) Value {
		st := args[0].(Struct)
		return And(Eq(st[0].(*Term), Const(64, 0)), Eq(st[1].(*Term), Const(64, 0)))
	}
	T["time.Since"] = func(ex *Exec, fn *ssa.Function, args []Value) Value {
		st := args[0].(Struct)
		return Bin("-", Bin("*", Bin("-", ex.now(), st[1].(*Term), true), Const(64, 1000000000), true), st[0].(*Term), true)
	}
	T["time.Unix"] = func(ex *Exec, fn *ssa.Function, args []Value) Value {
		return timeStruct(args[0].(*Term), args[1].(*Term))
	}
	T["time.NewTicker"] = func(ex *Exec, fn *ssa.Function, args []Value) Value {
		return Ptr{obj: &Obj{v: Struct{&ChanV{cap: 1}, Struct{}}}}
	}
	T["(*time.Ticker).Stop"] = retZero
	T["time.Sleep"] = func(ex *Exec, fn *ssa.Function, args []Value) Value {
		ex.syncPoint("sleep")
		return nil
	}
	// ---- context ----
	T["context.Background"] = func(ex *Exec, fn *ssa.Function, args []Value) Value {
		return nativeIface(&CtxV{done: &ChanV{}})
	}
	T["context.TODO"] = T["context.Background"]
	T["context.WithCancel"] = func(ex *Exec, fn *ssa.Function, args []Value) Value {
		c := &CtxV{done: &ChanV{}}
		return Tuple{nativeIface(c), &NativeFn{name: "cancel", f: func(ex *Exec, _ []Value) Value {
			ex.syncPoint("cancel")
			ex.raceRelease(fmt.Sprintf("ch:%p", c.done))
			c.cancelled = true
			c.done.closed = true
			return nil
		}}}
	}
	// ---- errors / fmt ----
	T["errors.New"] = func(ex *Exec, fn *ssa.Function, args []Value) Value {
		return errVal(&ErrV{msg: args[0].(Str)})
	}
	T["errors.Is"] = func(ex *Exec, fn *ssa.Function, args []Value) Value {
		return ex.errorsIs(args[0].(Iface), args[1].(Iface))
	}
	T["errors.Unwrap"] = func(ex *Exec, fn *ssa.Function, args []Value) Value {
		e := args[0].(Iface)
		if ev, ok := e.v.(*ErrV); ok && len(ev.wraps) == 1 {
			return ev.wraps[0]
		}
		return Iface{}
	}
	T["errors.As"] = func(ex *Exec, fn *ssa.Function, args []Value) Value {
		err := args[0].(Iface)
		tgt := args[1].(Iface)
		if tgt.t == nil {
			panic(&goPanic{msg: "errors: target cannot be nil"})
		}
		pt, ok := tgt.t.Underlying().(*types.Pointer)
		if !ok {
			panic(&goPanic{msg: "errors: target must be a non-nil pointer"})
		}
		want := pt.Elem()
		var walk func(e Iface, depth int) bool
		walk = func(e Iface, depth int) bool {
			if e.t == nil || depth > 8 {
				return false
			}
			if _, isI := want.Underlying().(*types.Interface); isI {
				if e.t != errVType && types.Implements(e.t, want.Underlying().(*types.Interface)) {
					tgt.v.(Ptr).store(e)
					return true
				}
			} else if types.Identical(e.t, want) {
				tgt.v.(Ptr).store(e.v)
				return true
			}
			if ev, ok := e.v.(*ErrV); ok {
				for _, w := range ev.wraps {
					if walk(w.(Iface), depth+1) {
						return true
					}
				}
				return false
			}
			if m := ex.lookupMethod(e.t,"Unwrap"); m != nil && m.Signature.Params().Len() == 0 {
				if ri, ok := ex.call(m, []Value{e.v}, nil).(Iface); ok {
					return walk(ri, depth+1)
				}
			}
			return false
		}
		return BoolC(walk(err, 0))
	}
	T["fmt.Errorf"] = func(ex *Exec, fn *ssa.Function, args []Value) Value {
		format := strOf(args[0])
		e := &ErrV{msg: args[0].(Str)}
		// find %w operands in order
		va := sliceElems(args[1].(Slice))
		ai := 0
		for i := 0; i+1 < len(format); i++ {
			if format[i] != '%' {
				continue
			}
			if format[i+1] == '%' {
				i++
				continue
			}
			j := i + 1
			for j < len(format) && strings.IndexByte("+-# 0123456789.", format[j]) >= 0 {
				j++
			}
			if j < len(format) {
				if format[j] == 'w' && ai < len(va) {
					e.wraps = append(e.wraps, va[ai])
				}
				ai++
			}
			i = j
		}
		return errVal(e)
	}
	T["fmt.Sprintf"] = func(ex *Exec, fn *ssa.Function, args []Value) Value {
		format := strOf(args[0])
		va := sliceElems(args[1].(Slice))
		var out Str
		ai := 0
		for i := 0; i < len(format); i++ {
			if format[i] != '%' || i+1 >= len(format) {
				out = append(out, Const(8, uint64(format[i])))
				continue
			}
			i++
			switch format[i] {
			case '%':
				out = append(out, Const(8, '%'))
			case 's', 'v', 'd':
				if ai >= len(va) {
					panic(pathAbort{"UNSUPPORTED fmt.Sprintf missing operand"})
				}
				out = append(out, ex.fmtValue(va[ai].(Iface))...)
				ai++
			default:
				panic(pathAbort{"UNSUPPORTED fmt.Sprintf verb %" + string(format[i])})
			}
		}
		return out
	}
	T["fmt.Sprint"] = func(ex *Exec, fn *ssa.Function, args []Value) Value {
		var out Str
		for _, a := range sliceElems(args[0].(Slice)) {
			out = append(out, ex.fmtValue(a.(Iface))...)
		}
		return out
	}
	// ---- strconv ----
	T["strconv.Itoa"] = func(ex *Exec, fn *ssa.Function, args []Value) Value {
		t := args[0].(*Term)
		if t.IsConst() {
			return strConst(fmt.Sprintf("%d", sext(t.val, 64)))
		}
		if ex.branch(Bin("<", t, Const(64, 0), true)) {
			return append(Str{Const(8, '-')}, ex.formatUint(Bin("-", Const(64, 0), t, true))...)
		}
		return ex.formatUint(t)
	}
	T["strconv.FormatInt"] = func(ex *Exec, fn *ssa.Function, args []Value) Value {
		if b := args[1].(*Term); !b.IsConst() || b.val != 10 {
			panic(pathAbort{"UNSUPPORTED FormatInt base"})
		}
		t := args[0].(*Term)
		if t.IsConst() {
			return strConst(fmt.Sprintf("%d", sext(t.val, 64)))
		}
		if ex.branch(Bin("<", t, Const(64, 0), true)) {
			return append(Str{Const(8, '-')}, ex.formatUint(Bin("-", Const(64, 0), t, true))...)
		}
		return ex.formatUint(t)
	}
	T["strconv.FormatUint"] = func(ex *Exec, fn *ssa.Function, args []Value) Value {
		if b := args[1].(*Term); !b.IsConst() || b.val != 10 {
			panic(pathAbort{"UNSUPPORTED FormatUint base"})
		}
		t := args[0].(*Term)
		// narrow the width when the value is a zero-extension
		if t.op == "zext" {
			return ex.formatUint(t.args[0])
		}
		return ex.formatUint(t)
	}
	// ---- unicode/utf8 ----
	T["unicode/utf8.Valid"] = func(ex *Exec, fn *ssa.Function, args []Value) Value {
		return utf8ValidTerm(ex.sliceTerms(args[0].(Slice)))
	}
	T["unicode/utf8.ValidString"] = func(ex *Exec, fn *ssa.Function, args []Value) Value {
		return utf8ValidTerm(args[0].(Str))
	}
	// ---- bytes / strings leaf functions ----
	T["internal/bytealg.IndexByte"] = func(ex *Exec, fn *ssa.Function, args []Value) Value {
		return ex.indexByte(ex.sliceTerms(args[0].(Slice)), args[1].(*Term))
	}
	T["internal/bytealg.IndexByteString"] = func(ex *Exec, fn *ssa.Function, args []Value) Value {
		return ex.indexByte(args[0].(Str), args[1].(*Term))
	}
	T["bytes.IndexByte"] = T["internal/bytealg.IndexByte"]
	T["strings.IndexByte"] = T["internal/bytealg.IndexByteString"]
	T["bytes.Equal"] = func(ex *Exec, fn *ssa.Function, args []Value) Value {
		return ex.strEq(toStr(args[0]), toStr(args[1]))
	}
	T["bytes.Contains"] = func(ex *Exec, fn *ssa.Function, args []Value) Value {
		return BoolC(ex.indexStr(toStr(args[0]), toStr(args[1])) >= 0)
	}
	T["bytes.Index"] = func(ex *Exec, fn *ssa.Function, args []Value) Value {
		return Const(64, uint64(int64(ex.indexStr(toStr(args[0]), toStr(args[1])))))
	}
	T["strings.Index"] = T["bytes.Index"]
	T["strings.Contains"] = T["bytes.Contains"]
	T["strings.HasPrefix"] = func(ex *Exec, fn *ssa.Function, args []Value) Value {
		s, p := args[0].(Str), args[1].(Str)
		if len(s) < len(p) {
			return tFalse
		}
		return ex.strEq(s[:len(p)], p)
	}
	T["strings.HasSuffix"] = func(ex *Exec, fn *ssa.Function, args []Value) Value {
		s, p := args[0].(Str), args[1].(Str)
		if len(s) < len(p) {
			return tFalse
		}
		return ex.strEq(s[len(s)-len(p):], p)
	}
	T["bytes.HasPrefix"] = func(ex *Exec, fn *ssa.Function, args []Value) Value {
		s, p := toStr(args[0]), toStr(args[1])
		if len(s) < len(p) {
			return tFalse
		}
		return ex.strEq(s[:len(p)], p)
	}
	T["strings.IndexRune"] = func(ex *Exec, fn *ssa.Function, args []Value) Value {
		r := args[1].(*Term)
		if !r.IsConst() || r.val >= 0x80 {
			panic(pathAbort{"UNSUPPORTED strings.IndexRune with non-ASCII/symbolic rune"})
		}
		return ex.indexByte(args[0].(Str), Const(8, r.val))
	}
	T["strings.ContainsRune"] = func(ex *Exec, fn *ssa.Function, args []Value) Value {
		r := args[1].(*Term)
		if !r.IsConst() || r.val >= 0x80 {
			panic(pathAbort{"UNSUPPORTED strings.ContainsRune with non-ASCII/symbolic rune"})
		}
		c := tFalse
		for _, t := range args[0].(Str) {
			c = Or(c, Eq(t, Const(8, r.val)))
		}
		return c
	}
	T["strings.ContainsAny"] = func(ex *Exec, fn *ssa.Function, args []Value) Value {
		s, set := args[0].(Str), args[1].(Str)
		c := tFalse
		for _, t := range s {
			for _, m := range set {
				c = Or(c, Eq(t, m))
			}
		}
		return c
	}
	T["strings.EqualFold"] = func(ex *Exec, fn *ssa.Function, args []Value) Value {
		a, b := args[0].(Str), args[1].(Str)
		ex.requireASCII(a, "strings.EqualFold")
		ex.requireASCII(b, "strings.EqualFold")
		if len(a) != len(b) {
			return tFalse
		}
		r := tTrue
		for i := range a {
			r = And(r, Eq(asciiLower(a[i]), asciiLower(b[i])))
		}
		return r
	}
	T["strings.ToLower"] = func(ex *Exec, fn *ssa.Function, args []Value) Value {
		a := args[0].(Str)
		ex.requireASCII(a, "strings.ToLower")
		out := make(Str, len(a))
		for i := range a {
			out[i] = asciiLower(a[i])
		}
		return out
	}
	T["strings.Count"] = func(ex *Exec, fn *ssa.Function, args []Value) Value {
		s, sep := args[0].(Str), args[1].(Str)
		if len(sep) != 1 {
			panic(pathAbort{"UNSUPPORTED strings.Count with sep length != 1"})
		}
		n := 0
		for _, t := range s {
			if ex.branch(Eq(t, sep[0])) {
				n++
			}
		}
		return Const(64, uint64(n))
	}
	T["strings.Split"] = func(ex *Exec, fn *ssa.Function, args []Value) Value {
		s, sep := args[0].(Str), args[1].(Str)
		if len(sep) == 0 {
			panic(pathAbort{"UNSUPPORTED strings.Split with empty sep"})
		}
		var parts Array
		for {
			i := ex.indexStr(s, sep)
			if i < 0 {
				break
			}
			parts = append(parts, s[:i:i])
			s = s[i+len(sep):]
		}
		parts = append(parts, s)
		return Slice{arr: &Obj{v: parts}, len: len(parts), cap: len(parts)}
	}
	T["strings.Join"] = func(ex *Exec, fn *ssa.Function, args []Value) Value {
		el := sliceElems(args[0].(Slice))
		sep := args[1].(Str)
		var out Str
		for i, e := range el {
			if i > 0 {
				out = append(out, sep...)
			}
			out = append(out, e.(Str)...)
		}
		return out
	}
	T["strings.TrimPrefix"] = func(ex *Exec, fn *ssa.Function, args []Value) Value {
		s, p := args[0].(Str), args[1].(Str)
		if len(s) >= len(p) && ex.branch(ex.strEq(s[:len(p)], p)) {
			return s[len(p):]
		}
		return s
	}
	T["strings.TrimSuffix"] = func(ex *Exec, fn *ssa.Function, args []Value) Value {
		s, p := args[0].(Str), args[1].(Str)
		if len(s) >= len(p) && ex.branch(ex.strEq(s[len(s)-len(p):], p)) {
			return s[:len(s)-len(p)]
		}
		return s
	}
	T["(*strings.Builder).String"] = func(ex *Exec, fn *ssa.Function, args []Value) Value {
		return toStr(args[0].(Ptr).field(1).load())
	}
	T["(*strings.Builder).copyCheck"] = retZero
	// ---- encoding/binary big endian (runs from SSA fine, but keep terms small) ----
	T["(encoding/binary.bigEndian).Uint16"] = func(ex *Exec, fn *ssa.Function, args []Value) Value {
		s := args[1].(Slice)
		if s.len < 2 {
			panic(&goPanic{msg: "index out of range [1] with length " + fmt.Sprint(s.len)})
		}
		ts := ex.sliceTerms(s)
		return Bin("|", Shift("<<", Resize(ts[0], 16, false), Const(16, 8), false), Resize(ts[1], 16, false), false)
	}
	T["(encoding/binary.bigEndian).Uint32"] = func(ex *Exec, fn *ssa.Function, args []Value) Value {
		s := args[1].(Slice)
		if s.len < 4 {
			panic(&goPanic{msg: "index out of range [3] with length " + fmt.Sprint(s.len)})
		}
		ts := ex.sliceTerms(s)
		r := Resize(ts[0], 32, false)
		for i := 1; i < 4; i++ {
			r = Bin("|", Shift("<<", r, Const(32, 8), false), Resize(ts[i], 32, false), false)
		}
		return r
	}
	// ---- sort ----
	T["sort.Ints"] = func(ex *Exec, fn *ssa.Function, args []Value) Value {
		s := args[0].(Slice)
		if s.len < 2 {
			return nil
		}
		arr := s.arr.v.(Array)
		for i := 1; i < s.len; i++ {
			for j := i; j > 0; j-- {
				a, b := arr[s.off+j-1].(*Term), arr[s.off+j].(*Term)
				if !ex.branch(Bin("<", b, a, true)) {
					break
				}
				arr[s.off+j-1], arr[s.off+j] = b, a
			}
		}
		return nil
	}
	T["sort.Strings"] = func(ex *Exec, fn *ssa.Function, args []Value) Value {
		s := args[0].(Slice)
		if s.len < 2 {
			return nil
		}
		arr := s.arr.v.(Array)
		for i := 1; i < s.len; i++ {
			for j := i; j > 0; j-- {
				a, b := arr[s.off+j-1].(Str), arr[s.off+j].(Str)
				if !ex.branch(ex.strLess(b, a)) {
					break
				}
				arr[s.off+j-1], arr[s.off+j] = b, a
			}
		}
		return nil
	}
	sortSlice := func(ex *Exec, fn *ssa.Function, args []Value) Value {
		sl := args[0].(Iface).v.(Slice)
		less := args[1]
		if sl.len > 12 {
			panic(pathAbort{"BOUND sort.Slice > 12 elements"})
		}
		if sl.len < 2 {
			return nil
		}
		arr := sl.arr.v.(Array)
		// insertion sort (what the stdlib uses for n <= 12), driving the real comparator
		for i := 1; i < sl.len; i++ {
			for j := i; j > 0; j-- {
				r := ex.doCall(less, []Value{Const(64, uint64(j)), Const(64, uint64(j-1))}).(*Term)
				if !ex.branch(r) {
					break
				}
				arr[sl.off+j], arr[sl.off+j-1] = arr[sl.off+j-1], arr[sl.off+j]
			}
		}
		return nil
	}
	T["sort.Slice"] = sortSlice
	T["sort.SliceStable"] = sortSlice
	// ---- misc ----
	T["github.com/mochi-mqtt/server/v2/packets.bytesToString"] = func(ex *Exec, fn *ssa.Function, args []Value) Value {
		return toStr(args[0])
	}
	T["github.com/rs/xid.New"] = func(ex *Exec, fn *ssa.Function, args []Value) Value {
		ex.xidCtr++
		a := make(Array, 12)
		for i := range a {
			a[i] = Const(8, 0)
		}
		a[11] = Const(8, uint64(ex.xidCtr))
		return a
	}
	T["(github.com/rs/xid.ID).String"] = func(ex *Exec, fn *ssa.Function, args []Value) Value {
		a := args[0].(Array)
		return strConst(fmt.Sprintf("xid%017d", a[11].(*Term).val))
	}
	T["runtime.ReadMemStats"] = retZero
	T["runtime.NumGoroutine"] = func(ex *Exec, fn *ssa.Function, args []Value) Value { return Const(64, 1) }
	T["runtime.GC"] = retZero
	T["runtime.Gosched"] = func(ex *Exec, fn *ssa.Function, args []Value) Value { ex.syncPoint("gosched"); return nil }
	T["os.Exit"] = func(ex *Exec, fn *ssa.Function, args []Value) Value { panic(&goPanic{msg: "os.Exit called"}) }
	T["bufio.NewReaderSize"] = func(ex *Exec, fn *ssa.Function, args []Value) Value {
		rd := args[0].(Iface)
		if c, ok := rd.v.(*ConnV); ok || rd.t == nil {
			return Ptr{obj: &Obj{v: &BufRd{conn: c}}}
		}
		size := 4096
		if len(args) > 1 {
			size = ex.concretize(args[1].(*Term), 0, 1<<20, true)
			if size < 16 {
				size = 16
			}
		}
		return Ptr{obj: &Obj{v: &BufRd{rd: rd, size: size}}}
	}
	T["bufio.NewReader"] = T["bufio.NewReaderSize"]
	// Buffered: over a scripted connection every byte that has arrived counts as buffered (bufio reads ahead as
	// much as the connection has); over another reader, what the model's buffer holds
	T["(*bufio.Reader).Buffered"] = func(ex *Exec, fn *ssa.Function, args []Value) Value {
		r := args[0].(Ptr).obj.v.(*BufRd)
		if r.rd.t == nil {
			if r.conn == nil || r.conn.closed {
				return Const(64, 0)
			}
			return Const(64, uint64(len(r.conn.script)-r.conn.rd))
		}
		return Const(64, uint64(len(r.buf)))
	}
	T["(*bufio.Reader).ReadByte"] = func(ex *Exec, fn *ssa.Function, args []Value) Value {
		r := args[0].(Ptr).obj.v.(*BufRd)
		b, err := r.readByte(ex)
		return Tuple{b, err}
	}
	T["io.ReadFull"] = func(ex *Exec, fn *ssa.Function, args []Value) Value {
		dst := args[1].(Slice)
		rd := args[0].(Iface)
		var c *BufRd
		switch x := rd.v.(type) {
		case Ptr:
			if br, ok := x.obj.v.(*BufRd); ok {
				c = br
			}
		case *ConnV:
			c = &BufRd{conn: x}
		}
		if c == nil {
			panic(pathAbort{"UNSUPPORTED io.ReadFull reader " + fmt.Sprintf("%T", rd.v)})
		}
		for i := 0; i < dst.len; i++ {
			b, err := c.readByte(ex)
			if err.t != nil {
				if i == 0 {
					return Tuple{Const(64, 0), err}
				}
				return Tuple{Const(64, uint64(i)), ex.sh.ioErr(ex, "ErrUnexpectedEOF")}
			}
			dst.arr.v.(Array)[dst.off+i] = b
		}
		return Tuple{Const(64, uint64(dst.len)), Iface{}}
	}
}

func (ex *Exec) fmtValue(a Iface) Str {
	switch x := a.v.(type) {
	case Str:
		return x
	case *Term:
		if x.width == 0 {
			if x.IsConst() {
				if x.Bool() {
					return strConst("true")
				}
				return strConst("false")
			}
			if ex.branch(x) {
				return strConst("true")
			}
			return strConst("false")
		}
		if b, ok := a.t.Underlying().(*types.Basic); ok {
			_, sg := bvWidth(b)
			if sg {
				if x.IsConst() {
					return strConst(fmt.Sprintf("%d", sext(x.val, x.width)))
				}
				if ex.branch(Bin("<", x, Const(x.width, 0), true)) {
					return append(Str{Const(8, '-')}, ex.formatUint(Bin("-", Const(x.width, 0), x, true))...)
				}
			}
		}
		return ex.formatUint(x)
	case Slice:
		return toStr(x)
	}
	if a.t != nil {
		if m := ex.lookupMethod(a.t,"Error"); m != nil {
			return ex.call(m, []Value{a.v}, nil).(Str)
		}
		if m := ex.lookupMethod(a.t,"String"); m != nil {
			return ex.call(m, []Value{a.v}, nil).(Str)
		}
		if e, ok := a.v.(*ErrV); ok {
			return e.msg
		}
	}
	return strConst("<?>")
}

// now returns the model clock: one symbolic second per path (time does not advance inside a harness
// unless the harness advances it with vAdvanceClock).
func (ex *Exec) now() *Term {
	if ex.clock == nil {
		t := ex.fresh("clock", 64)
		ex.assume(And(Bin(">=", t, Const(64, 1<<30), true), Bin("<", t, Const(64, 1<<32), true)))
		ex.clock = t
		ex.nd = append(ex.nd, ndEntry{Kind: "clock", Terms: []*Term{t}})
	}
	return ex.clock
}
