package main

import (
	"fmt"
	"go/constant"
	"go/token"
	"go/types"
	"sort"
	"strings"
	"sync"

	"golang.org/x/tools/go/ssa"
)

type alt struct {
	id   int
	cond *Term
}

// pathAbort ends a path for an engine-level reason (not a Go panic).
type pathAbort struct{ why string }

// nonTerm ends a path whose harness declared (vTerminates) that the code under test finishes within a step
// budget, and it did not: reported as a violation of kind "nonterm".
type nonTerm struct{ label string }

type ndEntry struct {
	Kind  string  // len, bytes, byte, u16, u32, u64, bool, choose, perm, ...
	Terms []*Term // symbolic answers (evaluated under the model for replay)
	Int   int     // concrete answer for decision-type entries
}

type obsEntry struct {
	Label string
	Terms []*Term
}

type Violation struct {
	Harness string
	Label   string
	Kind    string // assert | panic | lock
	Msg     string
	Script  []interface{} // replay script (nondeterministic answers in order)
	Trail   []int
	Stack   string
	Smt     []string // deciding query transcript
}

type PathResult struct {
	trail       []int
	decisions   int
	asserts     map[string]int
	reach       map[string]int
	violations  []*Violation
	abort       string
	panicMsg    string
	steps       int
	witness     *Witness
	assertQ     int
	assertUnsat int
	mapTrunc    int
	lockSites   map[string]bool
	lockEdges   map[string]string
	funcs       map[*ssa.Function]bool
}

type Witness struct {
	Script   []interface{}
	Observes map[string][]uint64
	Trail    []int
}

type Exec struct {
	sh      *Shared
	prog    *ssa.Program
	sol     *Solver
	globals map[*ssa.Global]*Obj
	cp      *copier
	prefix  []int
	pos     int
	trail   []int
	newWork [][]int
	nvar    int
	vars    []string
	varW    map[string]int
	nd      []ndEntry
	obs     []obsEntry
	steps   int
	// vTerminates: step budget of the code under test (0: none) and the label it is reported under
	termLimit int
	termLabel string
	race      *raceState
	depth   int
	res     *PathResult
	harness string
	once    map[string]bool
	stack   []*ssa.Function
	// panic/recover
	panicking []*frame
	// environment models
	clock      *Term
	pools      map[string][]Value
	locks      *lockTracker
	noMapPerm  bool
	kf         map[string]bool // labels listed as known findings (continue after violation)
	gor        *sched
	xidCtr     int
	abortStack string
	kvs        *kvState
	wg         map[string]int
}

type frame struct {
	fn     *ssa.Function
	info   *fnInfo
	regs   []Value
	defers []func()
	panic  *goPanic
}

type fnInfo struct {
	idx map[ssa.Value]int
	n   int
}

var fnInfoCache sync.Map

func infoFor(fn *ssa.Function) *fnInfo {
	if v, ok := fnInfoCache.Load(fn); ok {
		return v.(*fnInfo)
	}
	fi := &fnInfo{idx: map[ssa.Value]int{}}
	for _, p := range fn.Params {
		fi.idx[p] = fi.n
		fi.n++
	}
	for _, p := range fn.FreeVars {
		fi.idx[p] = fi.n
		fi.n++
	}
	for _, b := range fn.Blocks {
		for _, in := range b.Instrs {
			if v, ok := in.(ssa.Value); ok {
				fi.idx[v] = fi.n
				fi.n++
			}
		}
	}
	fnInfoCache.Store(fn, fi)
	return fi
}

func (ex *Exec) fresh(prefix string, w int) *Term {
	ex.nvar++
	n := fmt.Sprintf("%s_%d", prefix, ex.nvar)
	ex.sol.Declare(n, w)
	ex.vars = append(ex.vars, n)
	ex.varW[n] = w
	return Var(n, w)
}

func (ex *Exec) assume(c *Term) {
	if c.isTrue() {
		return
	}
	ex.sol.Assert(c)
}

// decide picks one alternative; the alternatives' conds must be mutually exclusive & exhaustive.
func (ex *Exec) decide(alts []alt) int {
	live := alts[:0:0]
	for _, a := range alts {
		if !a.cond.isFalse() {
			live = append(live, a)
		}
	}
	if len(live) == 0 {
		panic(pathAbort{"infeasible"})
	}
	if len(live) == 1 {
		ex.assume(live[0].cond)
		return live[0].id
	}
	if ex.pos < len(ex.prefix) {
		id := ex.prefix[ex.pos]
		ex.pos++
		ex.trail = append(ex.trail, id)
		for _, a := range live {
			if a.id == id {
				ex.assume(a.cond)
				return id
			}
		}
		panic(pathAbort{"ENGINE prefix alternative not found (non-deterministic re-execution)"})
	}
	var feas []alt
	for i, a := range live {
		// alternatives are exhaustive and the path condition is satisfiable: if every earlier
		// alternative is infeasible the last one must be feasible (saves a query)
		if i == len(live)-1 && len(feas) == 0 {
			feas = append(feas, a)
			break
		}
		if ex.sol.Feasible(a.cond) {
			feas = append(feas, a)
		}
	}
	if len(feas) == 0 {
		panic(pathAbort{"infeasible"})
	}
	for _, a := range feas[1:] {
		p := append(append(make([]int, 0, len(ex.trail)+1), ex.trail...), a.id)
		ex.newWork = append(ex.newWork, p)
	}
	ex.pos++
	ex.trail = append(ex.trail, feas[0].id)
	if len(feas) > 1 {
		ex.assume(feas[0].cond)
	} else {
		// single feasible alternative: its condition is implied, but assert it so later terms simplify
		ex.assume(feas[0].cond)
	}
	return feas[0].id
}

// choose: unconstrained n-way decision.
func (ex *Exec) choose(n int) int {
	if n <= 1 {
		return 0
	}
	if ex.pos < len(ex.prefix) {
		id := ex.prefix[ex.pos]
		ex.pos++
		ex.trail = append(ex.trail, id)
		return id
	}
	for i := 1; i < n; i++ {
		p := append(append(make([]int, 0, len(ex.trail)+1), ex.trail...), i)
		ex.newWork = append(ex.newWork, p)
	}
	ex.pos++
	ex.trail = append(ex.trail, 0)
	return 0
}

func (ex *Exec) branch(c *Term) bool {
	if c.IsConst() {
		return c.Bool()
	}
	return ex.decide([]alt{{1, c}, {0, Not(c)}}) == 1
}

const concretizeCap = 300

// concretize returns a concrete value of t within [lo,hi]; for values outside it returns hi+1.
func (ex *Exec) concretize(t *Term, lo, hi int, signed bool) int {
	if t.IsConst() {
		var v int64
		if signed {
			v = sext(t.val, t.width)
		} else {
			if t.val > 1<<62 {
				return hi + 1
			}
			v = int64(t.val)
		}
		if v < int64(lo) || v > int64(hi) {
			return hi + 1
		}
		return int(v)
	}
	if hi-lo > concretizeCap {
		return ex.concretizeEnum(t, lo, hi, signed)
	}
	alts := make([]alt, 0, hi-lo+2)
	in := tFalse
	for v := lo; v <= hi; v++ {
		c := Eq(t, Const(t.width, uint64(v)))
		alts = append(alts, alt{v, c})
		in = Or(in, c)
	}
	alts = append(alts, alt{hi + 1, Not(in)})
	return ex.decide(alts)
}

func (ex *Exec) constVal(c *ssa.Const) Value {
	t := c.Type()
	if c.Value == nil {
		return zero(t)
	}
	switch u := t.Underlying().(type) {
	case *types.Basic:
		if u.Info()&types.IsString != 0 {
			s := constant.StringVal(c.Value)
			return strConst(s)
		}
		if u.Info()&types.IsBoolean != 0 {
			return BoolC(constant.BoolVal(c.Value))
		}
		w, signed := bvWidth(u)
		if w < 0 {
			f, _ := constant.Float64Val(constant.ToFloat(c.Value))
			return FloatV{f}
		}
		if signed {
			return Const(w, uint64(c.Int64()))
		}
		return Const(w, c.Uint64())
	}
	panic(pathAbort{"UNSUPPORTED const " + c.String()})
}

func strConst(s string) Str {
	out := make(Str, len(s))
	for i := 0; i < len(s); i++ {
		out[i] = Const(8, uint64(s[i]))
	}
	return out
}

func (ex *Exec) get(fr *frame, v ssa.Value) Value {
	switch x := v.(type) {
	case *ssa.Const:
		return ex.constVal(x)
	case *ssa.Global:
		return Ptr{obj: ex.global(x)}
	case *ssa.Function:
		return &Func{fn: x}
	case *ssa.Builtin:
		return x
	}
	i, ok := fr.info.idx[v]
	if !ok {
		panic(pathAbort{fmt.Sprintf("ENGINE no register for %s in %s", v.Name(), fr.fn)})
	}
	return fr.regs[i]
}

func (ex *Exec) set(fr *frame, v ssa.Value, val Value) {
	fr.regs[fr.info.idx[v]] = val
}

func (ex *Exec) global(g *ssa.Global) *Obj {
	if o, ok := ex.globals[g]; ok {
		return o
	}
	if ex.sh.snapshot != nil {
		if so, ok := ex.sh.snapshot[g]; ok {
			o := ex.cp.obj(so)
			ex.globals[g] = o
			return o
		}
	}
	if g.Pkg != nil && !ex.sh.initPkgs[g.Pkg.Pkg.Path()] && !ex.sh.zeroOK[g.Pkg.Pkg.Path()] && ex.sh.snapshot != nil {
		panic(pathAbort{"UNSUPPORTED global of uninitialised package: " + g.String()})
	}
	o := &Obj{v: zero(g.Type().(*types.Pointer).Elem()), note: g.String(), typ: g.Type().(*types.Pointer).Elem()}
	ex.globals[g] = o
	return o
}

const maxSteps = 30000000
const maxDepth = 400

func (ex *Exec) call(fn *ssa.Function, args []Value, env []Value) (ret Value) {
	if in := ex.sh.intrinsicFor(fn); in != nil {
		return in(ex, fn, args)
	}
	if fn.Blocks == nil {
		panic(pathAbort{"UNSUPPORTED external " + fn.String()})
	}
	if ex.sh.trackFuncs {
		ex.res.funcs[fn] = true
	}
	ex.depth++
	if ex.depth > maxDepth {
		panic(pathAbort{"BOUND call depth"})
	}
	ex.stack = append(ex.stack, fn)
	fi := infoFor(fn)
	fr := &frame{fn: fn, info: fi, regs: make([]Value, fi.n)}
	copy(fr.regs, args)
	copy(fr.regs[len(fn.Params):], env)
	if len(args) != len(fn.Params) {
		panic(pathAbort{fmt.Sprintf("ENGINE arg count %d vs %d for %s", len(args), len(fn.Params), fn)})
	}
	defer func() {
		r := recover()
		if _, ok := r.(killSignal); ok {
			panic(r) // host goroutine of a killed interpreted goroutine: unwind without touching shared state
		}
		if _, ok := r.(pathAbort); ok && ex.abortStack == "" {
			ex.abortStack = ex.stackString()
		}
		if gp, ok := r.(*goPanic); ok && gp.stack == "" {
			gp.stack = ex.stackString()
		}
		ex.depth--
		ex.stack = ex.stack[:len(ex.stack)-1]
		if r != nil {
			gp, ok := r.(*goPanic)
			if !ok {
				panic(r)
			}
			fr.panic = gp
			ex.panicking = append(ex.panicking, fr)
			ex.depth++
			ex.stack = append(ex.stack, fn)
			func() {
				defer func() {
					ex.depth--
					ex.stack = ex.stack[:len(ex.stack)-1]
					ex.panicking = ex.panicking[:len(ex.panicking)-1]
				}()
				ex.runDefers(fr)
			}()
			if fr.panic != nil {
				panic(fr.panic)
			}
			// recovered
			if fn.Recover != nil {
				ex.depth++
				ex.stack = append(ex.stack, fn)
				defer func() { ex.depth--; ex.stack = ex.stack[:len(ex.stack)-1] }()
				ret = ex.runBlocks(fr, fn.Recover)
			} else {
				ret = zeroResults(fn)
			}
		}
	}()
	return ex.runBlocks(fr, fn.Blocks[0])
}

func zeroResults(fn *ssa.Function) Value {
	res := fn.Signature.Results()
	switch res.Len() {
	case 0:
		return nil
	case 1:
		return zero(res.At(0).Type())
	}
	return zero(res)
}

func (ex *Exec) runDefers(fr *frame) {
	for len(fr.defers) > 0 {
		d := fr.defers[len(fr.defers)-1]
		fr.defers = fr.defers[:len(fr.defers)-1]
		d()
	}
}

func (ex *Exec) runBlocks(fr *frame, b *ssa.BasicBlock) Value {
	var prev *ssa.BasicBlock
	for {
		var next *ssa.BasicBlock
		// phis are evaluated in parallel
		nphi := 0
		for _, in := range b.Instrs {
			if _, ok := in.(*ssa.Phi); ok {
				nphi++
			} else {
				break
			}
		}
		if nphi > 0 {
			pi := -1
			for i, p := range b.Preds {
				if p == prev {
					pi = i
					break
				}
			}
			if pi < 0 {
				panic(pathAbort{"ENGINE phi without predecessor"})
			}
			tmp := make([]Value, nphi)
			for i := 0; i < nphi; i++ {
				tmp[i] = ex.get(fr, b.Instrs[i].(*ssa.Phi).Edges[pi])
			}
			for i := 0; i < nphi; i++ {
				ex.set(fr, b.Instrs[i].(*ssa.Phi), tmp[i])
			}
		}
		for _, in := range b.Instrs[nphi:] {
			ex.steps++
			if ex.termLimit > 0 && ex.steps > ex.termLimit {
				panic(nonTerm{ex.termLabel})
			}
			if ex.steps > ex.sh.maxSteps {
				panic(pathAbort{"BOUND steps"})
			}
			switch x := in.(type) {
			case *ssa.Jump:
				next = b.Succs[0]
			case *ssa.If:
				if ex.branch(ex.get(fr, x.Cond).(*Term)) {
					next = b.Succs[0]
				} else {
					next = b.Succs[1]
				}
			case *ssa.Return:
				ex.runDefers(fr)
				switch len(x.Results) {
				case 0:
					return nil
				case 1:
					return ex.get(fr, x.Results[0])
				}
				t := make(Tuple, len(x.Results))
				for i, r := range x.Results {
					t[i] = ex.get(fr, r)
				}
				return t
			case *ssa.RunDefers:
				ex.runDefers(fr)
			case *ssa.Panic:
				v := ex.get(fr, x.X)
				panic(&goPanic{msg: "explicit panic: " + ex.describe(v), val: v})
			case *ssa.Defer:
				fnv, args := ex.prepCall(fr, &x.Call)
				fr.defers = append(fr.defers, func() { ex.doCall(fnv, args) })
			case *ssa.Go:
				fnv, args := ex.prepCall(fr, &x.Call)
				ex.spawn(fnv, args)
			case *ssa.Store:
				sp := ex.get(fr, x.Addr).(Ptr)
				if ex.sh.raceCheck {
					ex.raceAccess(sp.obj, sp.path, true, false, x.Pos())
				}
				sp.store(ex.get(fr, x.Val))
			case *ssa.MapUpdate:
				m := ex.get(fr, x.Map).(*Map)
				if m == nil {
					panic(&goPanic{msg: "assignment to entry in nil map"})
				}
				ex.mapSet(m, ex.get(fr, x.Key), ex.get(fr, x.Value))
			case *ssa.Send:
				ex.chanSend(ex.get(fr, x.Chan).(*ChanV), ex.get(fr, x.X))
			case *ssa.DebugRef:
			case ssa.Value:
				ex.set(fr, x, ex.eval(fr, x))
			default:
				panic(pathAbort{fmt.Sprintf("UNSUPPORTED instr %T", in)})
			}
			if next != nil {
				break
			}
		}
		if next == nil {
			panic(pathAbort{"ENGINE block fell through: " + fr.fn.String()})
		}
		prev, b = b, next
	}
}

func (ex *Exec) describe(v Value) string {
	switch x := v.(type) {
	case Iface:
		if x.t == nil {
			return "nil"
		}
		return x.t.String() + ":" + ex.describe(x.v)
	case Str:
		return strOf(x)
	case *Term:
		return x.String()
	case *ErrV:
		return "error(" + strOf(x.msg) + ")"
	}
	return fmt.Sprintf("%T", v)
}

func (ex *Exec) prepCall(fr *frame, c *ssa.CallCommon) (Value, []Value) {
	var args []Value
	var fnv Value
	if c.IsInvoke() {
		recv := ex.get(fr, c.Value).(Iface)
		if recv.t == nil {
			panic(&goPanic{msg: "invalid memory address or nil pointer dereference (nil interface method call " + c.Method.Name() + ")"})
		}
		if nv, ok := recv.v.(nativeObj); ok {
			for _, a := range c.Args {
				args = append(args, ex.get(fr, a))
			}
			return nativeCall{c.Method.Name(), nv}, args
		}
		m := ex.prog.LookupMethod(recv.t, c.Method.Pkg(), c.Method.Name())
		if m == nil {
			panic(pathAbort{"UNSUPPORTED no method " + c.Method.Name() + " on " + recv.t.String()})
		}
		fnv = &Func{fn: m}
		args = make([]Value, 0, len(c.Args)+1)
		args = append(args, recv.v)
	} else {
		fnv = ex.get(fr, c.Value)
		args = make([]Value, 0, len(c.Args))
	}
	for _, a := range c.Args {
		args = append(args, ex.get(fr, a))
	}
	return fnv, args
}

func (ex *Exec) doCall(fnv Value, args []Value) Value {
	switch f := fnv.(type) {
	case *Func:
		if f == nil {
			panic(&goPanic{msg: "invalid memory address or nil pointer dereference (nil func call)"})
		}
		return ex.call(f.fn, args, f.env)
	case *ssa.Builtin:
		return ex.builtin(f, args)
	case nativeCall:
		return f.recv.invoke(ex, f.name, args)
	case *NativeFn:
		return f.f(ex, args)
	}
	panic(pathAbort{fmt.Sprintf("ENGINE call of %T", fnv)})
}

func (ex *Exec) strEq(a, b Str) *Term {
	if len(a) != len(b) {
		return tFalse
	}
	r := tTrue
	for i := range a {
		r = And(r, Eq(a[i], b[i]))
		if r.isFalse() {
			return r
		}
	}
	return r
}

// strLess: lexicographic a < b
func (ex *Exec) strLess(a, b Str) *Term {
	// from the end backwards
	n := len(a)
	if len(b) < n {
		n = len(b)
	}
	r := BoolC(len(a) < len(b))
	for i := n - 1; i >= 0; i-- {
		r = Or(Bin("<", a[i], b[i], false), And(Eq(a[i], b[i]), r))
	}
	return r
}

func (ex *Exec) valEq(a, b Value) *Term {
	switch x := a.(type) {
	case nil:
		return BoolC(b == nil)
	case *Term:
		return Eq(x, b.(*Term))
	case Str:
		return ex.strEq(x, b.(Str))
	case FloatV:
		return BoolC(x.f == b.(FloatV).f)
	case Iface:
		y := b.(Iface)
		if x.t == nil || y.t == nil {
			return BoolC(x.t == nil && y.t == nil)
		}
		if !types.Identical(x.t, y.t) {
			return tFalse
		}
		return ex.valEq(x.v, y.v)
	case Struct:
		y := b.(Struct)
		r := tTrue
		for i := range x {
			r = And(r, ex.valEq(x[i], y[i]))
		}
		return r
	case Array:
		y := b.(Array)
		r := tTrue
		for i := range x {
			r = And(r, ex.valEq(x[i], y[i]))
		}
		return r
	case Ptr:
		return BoolC(samePtr(x, b.(Ptr)))
	case Slice:
		return BoolC(x.arr == nil && b.(Slice).arr == nil)
	case *Map:
		return BoolC(x == b.(*Map))
	case *Func:
		y, _ := b.(*Func)
		return BoolC(x == nil && y == nil)
	case *NativeFn:
		return BoolC(a == b)
	case *Opaque:
		return BoolC(a == b)
	case *ChanV:
		return BoolC(a == b)
	case *ErrV:
		return BoolC(a == b)
	case nativeObj:
		return BoolC(a == b)
	}
	panic(pathAbort{fmt.Sprintf("ENGINE valEq %T vs %T", a, b)})
}

func (ex *Exec) mapFind(m *Map, k Value) int {
	if m == nil {
		return -1
	}
	if ex.sh.raceCheck && ex.gor != nil {
		ex.raceAccess(ex.racePseudo(m, "map"), nil, false, false, token.NoPos)
	}
	alts := make([]alt, 0, len(m.keys)+1)
	none := tTrue
	for i, mk := range m.keys {
		e := ex.valEq(mk, k)
		if e.isFalse() {
			continue
		}
		c := And(none, e)
		alts = append(alts, alt{i, c})
		none = And(none, Not(e))
		if none.isFalse() {
			break
		}
	}
	alts = append(alts, alt{-1, none})
	return ex.decide(alts)
}

func (ex *Exec) mapSet(m *Map, k, v Value) {
	if ex.sh.raceCheck && ex.gor != nil && m != nil {
		ex.raceAccess(ex.racePseudo(m, "map"), nil, true, false, token.NoPos)
	}
	i := ex.mapFind(m, k)
	if i >= 0 {
		m.vals[i] = clone(v)
		return
	}
	m.keys = append(m.keys, clone(k))
	m.vals = append(m.vals, clone(v))
	m.next++
	m.ids = append(m.ids, m.next)
}

func (ex *Exec) mapDelete(m *Map, k Value) {
	if ex.sh.raceCheck && ex.gor != nil && m != nil {
		ex.raceAccess(ex.racePseudo(m, "map"), nil, true, false, token.NoPos)
	}
	i := ex.mapFind(m, k)
	if i >= 0 {
		m.keys = append(m.keys[:i:i], m.keys[i+1:]...)
		m.vals = append(m.vals[:i:i], m.vals[i+1:]...)
		m.ids = append(m.ids[:i:i], m.ids[i+1:]...)
	}
}

func isSigned(t types.Type) bool {
	if b, ok := t.Underlying().(*types.Basic); ok {
		_, s := bvWidth(b)
		return s
	}
	return false
}

func isFloatT(t types.Type) bool {
	b, ok := t.Underlying().(*types.Basic)
	return ok && b.Info()&types.IsFloat != 0
}

func (ex *Exec) eval(fr *frame, v ssa.Value) Value {
	switch x := v.(type) {
	case *ssa.Alloc:
		et := x.Type().(*types.Pointer).Elem()
		return Ptr{obj: &Obj{v: zero(et), typ: et}}
	case *ssa.BinOp:
		return ex.binop(x, ex.get(fr, x.X), ex.get(fr, x.Y))
	case *ssa.UnOp:
		a := ex.get(fr, x.X)
		switch x.Op {
		case token.MUL:
			if ex.sh.lockCheck && ex.locks != nil {
				if _, isStruct := x.Type().Underlying().(*types.Struct); isStruct {
					ex.copyOfHeldLock(a.(Ptr))
				}
			}
			if ex.sh.raceCheck {
				lp := a.(Ptr)
				ex.raceAccess(lp.obj, lp.path, false, false, x.Pos())
			}
			return a.(Ptr).load()
		case token.NOT:
			return Not(a.(*Term))
		case token.SUB:
			if f, ok := a.(FloatV); ok {
				return FloatV{-f.f}
			}
			t := a.(*Term)
			return Bin("-", Const(t.width, 0), t, true)
		case token.XOR:
			t := a.(*Term)
			return Bin("^", t, Const(t.width, ^uint64(0)), false)
		case token.ARROW:
			val, ok := ex.chanRecv(a.(*ChanV), x.X.Type().Underlying().(*types.Chan).Elem())
			if x.CommaOk {
				return Tuple{val, BoolC(ok)}
			}
			return val
		}
	case *ssa.Convert:
		return ex.convert(ex.get(fr, x.X), x.X.Type(), x.Type())
	case *ssa.ChangeType:
		return ex.get(fr, x.X)
	case *ssa.ChangeInterface:
		return ex.get(fr, x.X)
	case *ssa.MakeInterface:
		return Iface{t: x.X.Type(), v: ex.get(fr, x.X)}
	case *ssa.Extract:
		return ex.get(fr, x.Tuple).(Tuple)[x.Index]
	case *ssa.FieldAddr:
		return ex.get(fr, x.X).(Ptr).field(x.Field)
	case *ssa.Field:
		return clone(ex.get(fr, x.X).(Struct)[x.Field])
	case *ssa.IndexAddr:
		base := ex.get(fr, x.X)
		idx := ex.get(fr, x.Index).(*Term)
		sg := isSigned(x.Index.Type())
		switch bb := base.(type) {
		case Slice:
			i := ex.concretize(idx, 0, bb.len-1, sg)
			if i >= bb.len || bb.len == 0 {
				panic(&goPanic{msg: fmt.Sprintf("index out of range [%s] with length %d", idx, bb.len)})
			}
			return Ptr{obj: bb.arr, path: []int{bb.off + i}}
		case Ptr: // pointer to array
			n := int(x.X.Type().Underlying().(*types.Pointer).Elem().Underlying().(*types.Array).Len())
			i := ex.concretize(idx, 0, n-1, sg)
			if i >= n {
				panic(&goPanic{msg: fmt.Sprintf("index out of range [%s] with length %d", idx, n)})
			}
			return bb.field(i)
		}
	case *ssa.Index:
		base := ex.get(fr, x.X)
		idx := ex.get(fr, x.Index).(*Term)
		sg := isSigned(x.Index.Type())
		switch bb := base.(type) {
		case Str:
			i := ex.concretize(idx, 0, len(bb)-1, sg)
			if i >= len(bb) {
				panic(&goPanic{msg: fmt.Sprintf("index out of range [%s] with length %d", idx, len(bb))})
			}
			return bb[i]
		case Array:
			if idx.IsConst() || len(bb) > 32 {
				i := ex.concretize(idx, 0, len(bb)-1, sg)
				if i >= len(bb) {
					panic(&goPanic{msg: fmt.Sprintf("index out of range [%s] with length %d", idx, len(bb))})
				}
				return clone(bb[i])
			}
			i := ex.concretize(idx, 0, len(bb)-1, sg)
			if i >= len(bb) {
				panic(&goPanic{msg: fmt.Sprintf("index out of range [%s] with length %d", idx, len(bb))})
			}
			return clone(bb[i])
		}
	case *ssa.Slice:
		return ex.slice(fr, x)
	case *ssa.MakeSlice:
		n := ex.concretize(ex.get(fr, x.Len).(*Term), 0, ex.sh.maxAlloc, true)
		c := ex.concretize(ex.get(fr, x.Cap).(*Term), 0, ex.sh.maxAlloc, true)
		if n > ex.sh.maxAlloc || c > ex.sh.maxAlloc {
			panic(pathAbort{"BOUND makeslice size"})
		}
		if c < n {
			c = n
		}
		et := x.Type().Underlying().(*types.Slice).Elem()
		arr := make(Array, c)
		for i := range arr {
			arr[i] = zero(et)
		}
		return Slice{arr: &Obj{v: arr}, len: n, cap: c}
	case *ssa.MakeMap:
		mt := x.Type().Underlying().(*types.Map)
		return &Map{kt: mt.Key(), vt: mt.Elem()}
	case *ssa.MakeChan:
		n := ex.concretize(ex.get(fr, x.Size).(*Term), 0, 1<<16, true)
		return &ChanV{cap: n, et: x.Type().Underlying().(*types.Chan).Elem()}
	case *ssa.MakeClosure:
		f := &Func{fn: x.Fn.(*ssa.Function)}
		for _, b := range x.Bindings {
			f.env = append(f.env, ex.get(fr, b))
		}
		return f
	case *ssa.Lookup:
		base := ex.get(fr, x.X)
		if s, ok := base.(Str); ok {
			idx := ex.get(fr, x.Index).(*Term)
			i := ex.concretize(idx, 0, len(s)-1, isSigned(x.Index.Type()))
			if i >= len(s) {
				panic(&goPanic{msg: fmt.Sprintf("index out of range [%s] with length %d", idx, len(s))})
			}
			return s[i]
		}
		m := base.(*Map)
		i := ex.mapFind(m, ex.get(fr, x.Index))
		var val Value
		if i >= 0 {
			val = clone(m.vals[i])
		} else {
			val = zero(x.X.Type().Underlying().(*types.Map).Elem())
		}
		if x.CommaOk {
			return Tuple{val, BoolC(i >= 0)}
		}
		return val
	case *ssa.TypeAssert:
		i := ex.get(fr, x.X).(Iface)
		ok := false
		if i.t != nil {
			if it, isI := x.AssertedType.Underlying().(*types.Interface); isI {
				if _, nat := i.v.(nativeObj); nat {
					ok = true // native stubs satisfy the interfaces they are used at
				} else {
					ok = types.Implements(i.t, it)
				}
			} else {
				ok = types.Identical(i.t, x.AssertedType)
			}
		}
		var res Value
		if ok {
			if _, isI := x.AssertedType.Underlying().(*types.Interface); isI {
				res = i
			} else {
				res = i.v
			}
		}
		if x.CommaOk {
			if ok {
				return Tuple{res, tTrue}
			}
			return Tuple{zero(x.AssertedType), tFalse}
		}
		if !ok {
			panic(&goPanic{msg: "interface conversion: type assertion to " + x.AssertedType.String() + " failed"})
		}
		return res
	case *ssa.Call:
		fnv, args := ex.prepCall(fr, &x.Call)
		return ex.doCall(fnv, args)
	case *ssa.Range:
		return ex.rangeStart(ex.get(fr, x.X))
	case *ssa.Next:
		return ex.rangeNext(ex.get(fr, x.Iter).(*iterV), x)
	case *ssa.Select:
		return ex.selectStmt(fr, x)
	}
	panic(pathAbort{fmt.Sprintf("UNSUPPORTED value %T %s", v, v)})
}

func (ex *Exec) binop(x *ssa.BinOp, a, b Value) Value {
	switch x.Op {
	case token.EQL:
		return ex.valEq(a, b)
	case token.NEQ:
		return Not(ex.valEq(a, b))
	}
	if sa, ok := a.(Str); ok {
		sb := b.(Str)
		switch x.Op {
		case token.ADD:
			out := make(Str, 0, len(sa)+len(sb))
			return append(append(out, sa...), sb...)
		case token.LSS:
			return ex.strLess(sa, sb)
		case token.GTR:
			return ex.strLess(sb, sa)
		case token.LEQ:
			return Not(ex.strLess(sb, sa))
		case token.GEQ:
			return Not(ex.strLess(sa, sb))
		}
		panic(pathAbort{"UNSUPPORTED string op " + x.Op.String()})
	}
	if fa, ok := a.(FloatV); ok {
		fb := b.(FloatV)
		switch x.Op {
		case token.ADD:
			return FloatV{fa.f + fb.f}
		case token.SUB:
			return FloatV{fa.f - fb.f}
		case token.MUL:
			return FloatV{fa.f * fb.f}
		case token.QUO:
			return FloatV{fa.f / fb.f}
		case token.LSS:
			return BoolC(fa.f < fb.f)
		case token.GTR:
			return BoolC(fa.f > fb.f)
		case token.LEQ:
			return BoolC(fa.f <= fb.f)
		case token.GEQ:
			return BoolC(fa.f >= fb.f)
		}
		panic(pathAbort{"UNSUPPORTED float op " + x.Op.String()})
	}
	ta, tb := a.(*Term), b.(*Term)
	signed := isSigned(x.X.Type())
	switch x.Op {
	case token.SHL:
		return Shift("<<", ta, tb, signed)
	case token.SHR:
		return Shift(">>", ta, tb, signed)
	case token.LAND, token.AND:
		if ta.width == 0 {
			return And(ta, tb)
		}
		return Bin("&", ta, tb, signed)
	case token.LOR, token.OR:
		if ta.width == 0 {
			return Or(ta, tb)
		}
		return Bin("|", ta, tb, signed)
	case token.QUO, token.REM:
		if !tb.IsConst() {
			if ex.branch(Eq(tb, Const(tb.width, 0))) {
				panic(&goPanic{msg: "integer divide by zero"})
			}
		} else if tb.val == 0 {
			panic(&goPanic{msg: "integer divide by zero"})
		}
	}
	return Bin(x.Op.String(), ta, tb, signed)
}

func (ex *Exec) convert(v Value, from, to types.Type) Value {
	tu := to.Underlying()
	fu := from.Underlying()
	if tb, ok := tu.(*types.Basic); ok {
		if tb.Info()&types.IsString != 0 {
			switch x := v.(type) {
			case Slice:
				if el, ok := fu.(*types.Slice); ok {
					if eb, ok := el.Elem().Underlying().(*types.Basic); ok && eb.Kind() == types.Int32 {
						panic(pathAbort{"UNSUPPORTED []rune -> string"})
					}
				}
				out := make(Str, x.len)
				for i := 0; i < x.len; i++ {
					out[i] = x.arr.v.(Array)[x.off+i].(*Term)
				}
				return out
			case Str:
				return x
			case *Term:
				// integer (rune) -> string: concrete ASCII only
				if x.IsConst() && x.val < 0x80 {
					return Str{Const(8, x.val)}
				}
				if !x.IsConst() {
					if ex.branch(Bin("<", Resize(x, 64, false), Const(64, 0x80), false)) {
						return Str{Resize(x, 8, false)}
					}
				}
				panic(pathAbort{"UNSUPPORTED non-ASCII rune -> string"})
			}
		}
		if tb.Kind() == types.UnsafePointer {
			return v
		}
		if t, ok := v.(*Term); ok {
			w, _ := bvWidth(tb)
			if w < 0 {
				if t.IsConst() {
					if isSigned(from) {
						return FloatV{float64(sext(t.val, t.width))}
					}
					return FloatV{float64(t.val)}
				}
				panic(pathAbort{"UNSUPPORTED symbolic int -> float"})
			}
			if w == 0 {
				return t
			}
			return Resize(t, w, isSigned(from))
		}
		if f, ok := v.(FloatV); ok {
			w, sg := bvWidth(tb)
			if w < 0 {
				return f
			}
			if sg {
				return Const(w, uint64(int64(f.f)))
			}
			return Const(w, uint64(f.f))
		}
	}
	if st, ok := tu.(*types.Slice); ok {
		if s, ok := v.(Str); ok {
			if eb, ok := st.Elem().Underlying().(*types.Basic); ok && eb.Kind() == types.Int32 {
				// string -> []rune: ASCII only
				arr := make(Array, len(s))
				for i := range s {
					if !s[i].IsConst() || s[i].val >= 0x80 {
						if ex.branch(Bin(">=", s[i], Const(8, 0x80), false)) {
							panic(pathAbort{"UNSUPPORTED non-ASCII string -> []rune"})
						}
					}
					arr[i] = Resize(s[i], 32, false)
				}
				return Slice{arr: &Obj{v: arr}, len: len(s), cap: len(s)}
			}
			arr := make(Array, len(s))
			for i := range s {
				arr[i] = s[i]
			}
			return Slice{arr: &Obj{v: arr}, len: len(s), cap: len(s)}
		}
	}
	if _, ok := tu.(*types.Pointer); ok {
		return v // unsafe.Pointer -> *T
	}
	panic(pathAbort{fmt.Sprintf("UNSUPPORTED convert %s -> %s", from, to)})
}

func (ex *Exec) slice(fr *frame, x *ssa.Slice) Value {
	base := ex.get(fr, x.X)
	bound := func(v ssa.Value, def, lo, max int, what string) int {
		if v == nil {
			return def
		}
		t := ex.get(fr, v).(*Term)
		i := ex.concretize(t, lo, max, isSigned(v.Type()))
		if i > max {
			panic(&goPanic{msg: fmt.Sprintf("slice bounds out of range [%s %s] with capacity/length %d (low %d)", what, t, max, lo)})
		}
		return i
	}
	switch b := base.(type) {
	case Str:
		lo := bound(x.Low, 0, 0, len(b), "low")
		hi := bound(x.High, len(b), lo, len(b), "high")
		return b[lo:hi:hi]
	case Slice:
		lo := bound(x.Low, 0, 0, b.cap, "low")
		hi := bound(x.High, b.len, lo, b.cap, "high")
		mx := b.cap
		if x.Max != nil {
			mx = bound(x.Max, b.cap, hi, b.cap, "max")
		}
		if x.High == nil && lo > b.len {
			panic(&goPanic{msg: fmt.Sprintf("slice bounds out of range [%d:%d]", lo, b.len)})
		}
		if b.arr == nil {
			return Slice{}
		}
		return Slice{arr: b.arr, off: b.off + lo, len: hi - lo, cap: mx - lo}
	case Ptr: // *array
		arr, ok := b.load().(Array)
		if !ok {
			panic(pathAbort{"UNSUPPORTED slice of non-array pointer"})
		}
		n := len(arr)
		lo := bound(x.Low, 0, 0, n, "low")
		hi := bound(x.High, n, lo, n, "high")
		if len(b.path) != 0 {
			panic(pathAbort{"UNSUPPORTED slice of nested array"})
		}
		return Slice{arr: b.obj, off: lo, len: hi - lo, cap: n - lo}
	}
	panic(pathAbort{fmt.Sprintf("UNSUPPORTED slice of %T", base)})
}

func sliceElems(s Slice) []Value {
	if s.arr == nil {
		return nil
	}
	return s.arr.v.(Array)[s.off : s.off+s.len]
}

func (ex *Exec) builtin(b *ssa.Builtin, args []Value) Value {
	switch b.Name() {
	case "len":
		switch x := args[0].(type) {
		case Str:
			return Const(64, uint64(len(x)))
		case Slice:
			return Const(64, uint64(x.len))
		case *Map:
			if x == nil {
				return Const(64, 0)
			}
			if ex.sh.raceCheck && ex.gor != nil {
				ex.raceAccess(ex.racePseudo(x, "map"), nil, false, false, token.NoPos)
			}
			return Const(64, uint64(len(x.keys)))
		case *ChanV:
			if x == nil {
				return Const(64, 0)
			}
			return Const(64, uint64(len(x.q)))
		case Array:
			return Const(64, uint64(len(x)))
		}
	case "cap":
		switch x := args[0].(type) {
		case Slice:
			return Const(64, uint64(x.cap))
		case *ChanV:
			if x == nil {
				return Const(64, 0)
			}
			return Const(64, uint64(x.cap))
		}
	case "append":
		s := args[0].(Slice)
		var add []Value
		switch t := args[1].(type) {
		case Slice:
			for _, e := range sliceElems(t) {
				add = append(add, clone(e))
			}
		case Str:
			for _, c := range t {
				add = append(add, c)
			}
		}
		if len(add) == 0 {
			return s
		}
		if s.len+len(add) <= s.cap {
			arr := s.arr.v.(Array)
			for i, a := range add {
				arr[s.off+s.len+i] = a
			}
			return Slice{arr: s.arr, off: s.off, len: s.len + len(add), cap: s.cap}
		}
		n := s.len + len(add)
		// Go grows capacity; model: double (so that aliasing after append behaves like the runtime in the common case)
		c := n
		if s.cap*2 > c && s.cap < 256 {
			c = s.cap * 2
		}
		arr := make(Array, c)
		for i := 0; i < s.len; i++ {
			arr[i] = clone(s.arr.v.(Array)[s.off+i])
		}
		copy(arr[s.len:], add)
		var z Value
		if c > n {
			if len(add) > 0 {
				z = zeroLike(add[0])
			}
			for i := n; i < c; i++ {
				arr[i] = clone(z)
			}
		}
		return Slice{arr: &Obj{v: arr}, len: n, cap: c}
	case "copy":
		dst := args[0].(Slice)
		var src []Value
		switch t := args[1].(type) {
		case Slice:
			src = append(src, sliceElems(t)...)
		case Str:
			for _, c := range t {
				src = append(src, c)
			}
		}
		n := dst.len
		if len(src) < n {
			n = len(src)
		}
		if n > 0 {
			d := dst.arr.v.(Array)
			for i := 0; i < n; i++ {
				d[dst.off+i] = clone(src[i])
			}
		}
		return Const(64, uint64(n))
	case "delete":
		m := args[0].(*Map)
		if m != nil {
			ex.mapDelete(m, args[1])
		}
		return nil
	case "close":
		ch := args[0].(*ChanV)
		if ch == nil {
			panic(&goPanic{msg: "close of nil channel"})
		}
		if ch.closed {
			panic(&goPanic{msg: "close of closed channel"})
		}
		ex.raceRelease(fmt.Sprintf("ch:%p", ch))
		ch.closed = true
		return nil
	case "recover":
		if n := len(ex.panicking); n > 0 {
			fr := ex.panicking[n-1]
			if fr.panic != nil {
				p := fr.panic
				fr.panic = nil
				if iv, ok := p.val.(Iface); ok && iv.t != nil {
					return iv
				}
				return Iface{t: types.Typ[types.String], v: strConst(p.msg)}
			}
		}
		return Iface{}
	case "print", "println":
		return nil
	case "ssa:wrapnilchk":
		if p, ok := args[0].(Ptr); ok && p.obj == nil {
			panic(&goPanic{msg: "value method called using nil pointer"})
		}
		return args[0]
	case "min", "max":
		r := args[0].(*Term)
		for _, a := range args[1:] {
			t := a.(*Term)
			var c *Term
			// signedness unknown here: builtin carries signature
			sg := isSigned(b.Type().(*types.Signature).Params().At(0).Type())
			if b.Name() == "min" {
				c = Bin("<", t, r, sg)
			} else {
				c = Bin(">", t, r, sg)
			}
			r = Ite(c, t, r)
		}
		return r
	}
	panic(pathAbort{"UNSUPPORTED builtin " + b.Name()})
}

func zeroLike(v Value) Value {
	switch x := v.(type) {
	case *Term:
		if x.width == 0 {
			return tFalse
		}
		return Const(x.width, 0)
	case Str:
		return Str{}
	case Ptr:
		return Ptr{}
	case Struct:
		c := make(Struct, len(x))
		for i := range x {
			c[i] = zeroLike(x[i])
		}
		return c
	case Array:
		c := make(Array, len(x))
		for i := range x {
			c[i] = zeroLike(x[i])
		}
		return c
	case Slice:
		return Slice{}
	case Iface:
		return Iface{}
	case *Map:
		return (*Map)(nil)
	case *Func:
		return (*Func)(nil)
	case *ChanV:
		return (*ChanV)(nil)
	case FloatV:
		return FloatV{}
	}
	return nil
}

func fnName(fn *ssa.Function) string {
	return strings.ReplaceAll(fn.String(), "github.com/mochi-mqtt/server/v2", "mochi")
}

func (ex *Exec) stackString() string {
	var parts []string
	for i := len(ex.stack) - 1; i >= 0 && len(parts) < 8; i-- {
		parts = append(parts, fnName(ex.stack[i]))
	}
	return strings.Join(parts, " < ")
}

// concretizeEnum handles wide ranges: the feasible values are enumerated with the solver (blocking
// clauses) instead of testing every value of the range; more than enumCap feasible values is a bound.
const enumCap = 48

func (ex *Exec) concretizeEnum(t *Term, lo, hi int, signed bool) int {
	w := t.width
	inRange := And(Bin(">=", t, Const(w, uint64(lo)), signed), Bin("<=", t, Const(w, uint64(hi)), signed))
	if ex.pos < len(ex.prefix) {
		v := ex.prefix[ex.pos]
		ex.pos++
		ex.trail = append(ex.trail, v)
		if v == hi+1 {
			ex.assume(Not(inRange))
		} else {
			ex.assume(Eq(t, Const(w, uint64(v))))
		}
		return v
	}
	var vals []int
	ex.sol.Push()
	ex.sol.Assert(inRange)
	for {
		if ex.sol.Check() != "sat" {
			break
		}
		v := int(ex.sol.ValueOf(t))
		vals = append(vals, v)
		if len(vals) > enumCap {
			ex.sol.Pop()
			panic(pathAbort{fmt.Sprintf("BOUND more than %d feasible values for a size/index in %d..%d", enumCap, lo, hi)})
		}
		ex.sol.Assert(Not(Eq(t, Const(w, uint64(v)))))
	}
	ex.sol.Pop()
	sort.Ints(vals)
	if ex.sol.Feasible(Not(inRange)) {
		vals = append(vals, hi+1)
	}
	if len(vals) == 0 {
		panic(pathAbort{"infeasible"})
	}
	for _, v := range vals[1:] {
		p := append(append(make([]int, 0, len(ex.trail)+1), ex.trail...), v)
		ex.newWork = append(ex.newWork, p)
	}
	ex.pos++
	v := vals[0]
	ex.trail = append(ex.trail, v)
	if v == hi+1 {
		ex.assume(Not(inRange))
	} else {
		ex.assume(Eq(t, Const(w, uint64(v))))
	}
	return v
}
