package main

// Happens-before race analysis on explored paths (C33).
//
// With race_check on, every load and store of interpreted memory (pointer dereference, store, map access, atomic
// operation) is recorded per location (object, field/index path) with the vector clock of the accessing
// goroutine. Synchronisation operations transfer clocks exactly where the Go memory model orders them:
// go statement, Mutex/RWMutex, sync/atomic (every atomic operation is an acquire and a release on its
// variable, as in the Go race detector), channel send/receive/close, WaitGroup, Once, Pool, context cancel.
// Where the model is unsure it adds ordering (it may miss a race, it never invents one). Two accesses to
// overlapping locations by different goroutines, at least one a write, not both atomic, and not ordered by
// happens-before on the explored path are a data race: a violation of kind "race" with the path's inputs and
// schedule as the counterexample. Accesses made by harness code itself (files zz_verif_*) are not reported:
// only the repository's own functions count.

import (
	"fmt"
	"go/token"
	"go/types"
	"os"
	"sort"
	"strings"

	"golang.org/x/tools/go/ssa"
)

// raceIncludeHarness (VERIF_RACE_HARNESS=1, or the harness parameter RACE_HARNESS=1): also report races between
// accesses made by harness code; used by the self-test of the analysis.
var raceIncludeHarness = os.Getenv("VERIF_RACE_HARNESS") != ""

type vclock []int

func (a vclock) get(i int) int {
	if i < len(a) {
		return a[i]
	}
	return 0
}

func (a vclock) copy() vclock { return append(vclock(nil), a...) }

func vcJoin(a, b vclock) vclock {
	if len(b) > len(a) {
		a = append(a.copy(), make(vclock, len(b)-len(a))...)
	} else {
		a = a.copy()
	}
	for i, v := range b {
		if v > a[i] {
			a[i] = v
		}
	}
	return a
}

type accRec struct {
	g      int
	clk    int
	write  bool
	atomic bool
	fn     *ssa.Function
	pos    token.Pos
	what   string
}

type locAcc struct {
	path []int
	w    *accRec
	r    map[int]*accRec
}

// racePseudo gives engine-level containers (maps) an identity in the access history.
func (ex *Exec) racePseudo(k interface{}, note string) *Obj {
	rs := ex.raceInit()
	if rs.pseudo == nil {
		rs.pseudo = map[interface{}]*Obj{}
	}
	o := rs.pseudo[k]
	if o == nil {
		o = &Obj{note: note}
		rs.pseudo[k] = o
	}
	return o
}

type raceState struct {
	pseudo   map[interface{}]*Obj
	sync     map[string]vclock            // clocks of synchronisation objects
	objs     map[*Obj]map[string]*locAcc  // access history per object and path
	reported map[string]bool
}

func (ex *Exec) raceOn() bool { return ex.sh.raceCheck && ex.gor != nil }

func (ex *Exec) raceInit() *raceState {
	if ex.race == nil {
		ex.race = &raceState{sync: map[string]vclock{}, objs: map[*Obj]map[string]*locAcc{}, reported: map[string]bool{}}
	}
	return ex.race
}

func (ex *Exec) gvc(g *gstate) vclock {
	if g.vc == nil {
		g.vc = make(vclock, g.id+1)
		g.vc[g.id] = 1
	}
	if len(g.vc) <= g.id {
		g.vc = append(g.vc, make(vclock, g.id+1-len(g.vc))...)
		g.vc[g.id] = 1
	}
	return g.vc
}

func (ex *Exec) raceTick(g *gstate) {
	vc := ex.gvc(g).copy()
	vc[g.id]++
	g.vc = vc
}

// raceFork: the new goroutine starts with everything its creator has done so far.
func (ex *Exec) raceFork(parent, child *gstate) {
	if !ex.raceOn() {
		return
	}
	pv := ex.gvc(parent)
	cv := vcJoin(make(vclock, child.id+1), pv)
	cv[child.id] = 1
	child.vc = cv
	ex.raceTick(parent)
}

// raceAcquire: the current goroutine learns everything released into the synchronisation object key.
func (ex *Exec) raceAcquire(key string) {
	if !ex.raceOn() {
		return
	}
	rs := ex.raceInit()
	g := ex.gor.cur
	if s, ok := rs.sync[key]; ok {
		g.vc = vcJoin(ex.gvc(g), s)
	}
}

// raceRelease: everything the current goroutine has done so far is published through key.
func (ex *Exec) raceRelease(key string) {
	if !ex.raceOn() {
		return
	}
	rs := ex.raceInit()
	g := ex.gor.cur
	rs.sync[key] = vcJoin(rs.sync[key], ex.gvc(g))
	ex.raceTick(g)
}

// raceAtomic: an atomic operation on *p is an access that is both an acquire and a release on that variable.
func (ex *Exec) raceAtomic(p Ptr, write bool) {
	if !ex.raceOn() || p.obj == nil {
		return
	}
	k := "a:" + p.key()
	ex.raceAcquire(k)
	ex.raceAccess(p.obj, p.path, write, true, token.NoPos)
	ex.raceRelease(k)
}

// raceSync: acquire and release on a synchronisation object identified by key (WaitGroup, Once, Pool, context)
func (ex *Exec) raceSync(key string, acquire, release bool) {
	if acquire {
		ex.raceAcquire(key)
	}
	if release {
		ex.raceRelease(key)
	}
}

func samePrefix(a, b []int) bool {
	n := len(a)
	if len(b) < n {
		n = len(b)
	}
	for i := 0; i < n; i++ {
		if a[i] != b[i] {
			return false
		}
	}
	return true
}

func pathKey(p []int) string {
	var sb strings.Builder
	for _, x := range p {
		fmt.Fprintf(&sb, "%d.", x)
	}
	return sb.String()
}

func isHarnessFn(ex *Exec, fn *ssa.Function) bool {
	if raceIncludeHarness || ex.sh.params["RACE_HARNESS"] == 1 {
		return false
	}
	if fn == nil {
		return true
	}
	for fn.Parent() != nil {
		fn = fn.Parent()
	}
	if fn.Pkg == nil || !strings.HasPrefix(fn.Pkg.Pkg.Path(), repoMod) {
		return false // library code running on behalf of the repository (e.g. bytes.Buffer) counts as repository access
	}
	pos := ex.prog.Fset.Position(fn.Pos())
	return strings.Contains(pos.Filename, "zz_verif_")
}

// describeLoc names the accessed location by its object's type and the field names along the path.
func describeLoc(o *Obj, path []int) string {
	if o == nil || o.typ == nil {
		if o != nil && o.note != "" {
			return o.note
		}
		return "memory"
	}
	t := o.typ
	name := types.TypeString(t, func(p *types.Package) string { return p.Name() })
	for _, i := range path {
		switch u := t.Underlying().(type) {
		case *types.Struct:
			if i < u.NumFields() {
				name += "." + u.Field(i).Name()
				t = u.Field(i).Type()
				continue
			}
		case *types.Array:
			name += "[i]"
			t = u.Elem()
			continue
		}
		name += "[i]"
		break
	}
	return name
}

// raceAccess records an access and reports it if it races with an earlier one.
func (ex *Exec) raceAccess(o *Obj, path []int, write, atomic bool, pos token.Pos) {
	if !ex.raceOn() || o == nil || len(ex.gor.gs) < 2 {
		return // before the first go statement nothing can race: the fork orders it all
	}
	rs := ex.raceInit()
	g := ex.gor.cur
	var fn *ssa.Function
	if n := len(ex.stack); n > 0 {
		fn = ex.stack[n-1]
	}
	vc := ex.gvc(g)
	cur := &accRec{g: g.id, clk: vc[g.id], write: write, atomic: atomic, fn: fn, pos: pos}
	locs := rs.objs[o]
	if locs == nil {
		locs = map[string]*locAcc{}
		rs.objs[o] = locs
	}
	check := func(prev *accRec, lp []int) {
		if prev == nil || prev.g == g.id || !(write || prev.write) || (atomic && prev.atomic) {
			return
		}
		if prev.clk <= vc.get(prev.g) {
			return // ordered by happens-before
		}
		if isHarnessFn(ex, fn) || isHarnessFn(ex, prev.fn) {
			return
		}
		longer := path
		if len(lp) > len(longer) {
			longer = lp
		}
		ex.reportRace(o, longer, prev, cur)
	}
	for _, la := range locs {
		if !samePrefix(la.path, path) {
			continue
		}
		check(la.w, la.path)
		if write {
			for _, r := range la.r {
				check(r, la.path)
			}
		}
	}
	k := pathKey(path)
	la := locs[k]
	if la == nil {
		la = &locAcc{path: append([]int(nil), path...), r: map[int]*accRec{}}
		locs[k] = la
	}
	if write {
		la.w = cur
		la.r = map[int]*accRec{}
	} else {
		la.r[g.id] = cur
	}
}

func accDesc(ex *Exec, a *accRec) string {
	kind := "read"
	if a.write {
		kind = "write"
	}
	if a.atomic {
		kind = "atomic " + kind
	}
	where := ""
	if a.pos.IsValid() {
		p := ex.prog.Fset.Position(a.pos)
		f := p.Filename
		if i := strings.LastIndex(f, "/"); i >= 0 {
			f = f[i+1:]
		}
		where = fmt.Sprintf(" (%s:%d)", f, p.Line)
	}
	return kind + " in " + fnName(a.fn) + where
}

func (ex *Exec) reportRace(o *Obj, path []int, a, b *accRec) {
	rs := ex.race
	loc := describeLoc(o, path)
	fa, fb := fnName(a.fn), fnName(b.fn)
	pair := []string{fa, fb}
	sort.Strings(pair)
	label := "race:" + loc + ":" + pair[0] + "|" + pair[1]
	label = strings.ReplaceAll(label, " ", "")
	if rs.reported[label] {
		return
	}
	rs.reported[label] = true
	msg := fmt.Sprintf("data race on %s: %s by goroutine %d and %s by goroutine %d are not ordered by happens-before", loc, accDesc(ex, a), a.g, accDesc(ex, b), b.g)
	var script []interface{}
	func() {
		defer func() { recover() }()
		if ex.sol.Check() == "sat" {
			script, _ = ex.buildScript()
		}
	}()
	ex.recordViolation("race", label, msg, script)
}
