package main

import (
	"fmt"
	"strings"
	"sync/atomic"
)

// Term is an SMT term: BV(width) or Bool (width 0). Terms are immutable DAG nodes.
type Term struct {
	op    string
	args  []*Term
	width int // 0 = Bool
	val   uint64
	name  string
	id    uint64
	size  int // tree size (saturating)
}

var termCtr uint64

func mk(op string, w int, args ...*Term) *Term {
	sz := 1
	for _, a := range args {
		sz += a.size
		if sz > 1<<20 {
			sz = 1 << 20
		}
	}
	return &Term{op: op, args: args, width: w, id: atomic.AddUint64(&termCtr, 1), size: sz}
}

func mask(w int) uint64 {
	if w >= 64 {
		return ^uint64(0)
	}
	return (uint64(1) << uint(w)) - 1
}

func Const(w int, v uint64) *Term {
	return &Term{op: "const", width: w, val: v & mask(w), size: 1}
}

var tTrue = &Term{op: "true", size: 1}
var tFalse = &Term{op: "false", size: 1}

func BoolC(b bool) *Term {
	if b {
		return tTrue
	}
	return tFalse
}
func Var(name string, w int) *Term { return &Term{op: "var", name: name, width: w, size: 1} }

func (t *Term) IsConst() bool { return t.op == "const" || t.op == "true" || t.op == "false" }
func (t *Term) Bool() bool    { return t.op == "true" }
func (t *Term) isTrue() bool  { return t.op == "true" }
func (t *Term) isFalse() bool { return t.op == "false" }

func sext(v uint64, w int) int64 {
	if w >= 64 {
		return int64(v)
	}
	if v&(1<<uint(w-1)) != 0 {
		return int64(v | ^mask(w))
	}
	return int64(v)
}

func sortOf(w int) string {
	if w == 0 {
		return "Bool"
	}
	return fmt.Sprintf("(_ BitVec %d)", w)
}

// leaf string
func (t *Term) leafString() (string, bool) {
	switch t.op {
	case "const":
		if t.width%4 == 0 {
			return fmt.Sprintf("#x%0*x", t.width/4, t.val), true
		}
		return fmt.Sprintf("#b%0*b", t.width, t.val), true
	case "true", "false":
		return t.op, true
	case "var":
		return t.name, true
	}
	return "", false
}

// render writes the term; sub-terms for which name(t) returns non-empty are referenced by name.
func (t *Term) render(sb *strings.Builder, name func(*Term) string, top bool) {
	if s, ok := t.leafString(); ok {
		sb.WriteString(s)
		return
	}
	if !top {
		if n := name(t); n != "" {
			sb.WriteString(n)
			return
		}
	}
	switch t.op {
	case "zext":
		fmt.Fprintf(sb, "((_ zero_extend %d) ", t.width-t.args[0].width)
		t.args[0].render(sb, name, false)
		sb.WriteString(")")
	case "sext":
		fmt.Fprintf(sb, "((_ sign_extend %d) ", t.width-t.args[0].width)
		t.args[0].render(sb, name, false)
		sb.WriteString(")")
	case "extract":
		fmt.Fprintf(sb, "((_ extract %d 0) ", t.width-1)
		t.args[0].render(sb, name, false)
		sb.WriteString(")")
	default:
		sb.WriteString("(")
		sb.WriteString(t.op)
		for _, a := range t.args {
			sb.WriteString(" ")
			a.render(sb, name, false)
		}
		sb.WriteString(")")
	}
}

func (t *Term) String() string {
	var sb strings.Builder
	t.render(&sb, func(*Term) string { return "" }, true)
	return sb.String()
}

func Not(a *Term) *Term {
	if a.op == "true" {
		return tFalse
	}
	if a.op == "false" {
		return tTrue
	}
	if a.op == "not" {
		return a.args[0]
	}
	return mk("not", 0, a)
}

func And(a, b *Term) *Term {
	if a.op == "false" || b.op == "false" {
		return tFalse
	}
	if a.op == "true" {
		return b
	}
	if b.op == "true" {
		return a
	}
	if a == b {
		return a
	}
	return mk("and", 0, a, b)
}
func Or(a, b *Term) *Term {
	if a.op == "true" || b.op == "true" {
		return tTrue
	}
	if a.op == "false" {
		return b
	}
	if b.op == "false" {
		return a
	}
	if a == b {
		return a
	}
	return mk("or", 0, a, b)
}
func Implies(a, b *Term) *Term { return Or(Not(a), b) }
func Iff(a, b *Term) *Term {
	if a.IsConst() {
		if a.Bool() {
			return b
		}
		return Not(b)
	}
	if b.IsConst() {
		if b.Bool() {
			return a
		}
		return Not(a)
	}
	return mk("=", 0, a, b)
}

func Ite(c, a, b *Term) *Term {
	if c.op == "true" {
		return a
	}
	if c.op == "false" {
		return b
	}
	if a == b {
		return a
	}
	if a.IsConst() && b.IsConst() && a.width == b.width && a.val == b.val && a.op == b.op {
		return a
	}
	if a.width == 0 {
		// boolean ite
		if a.IsConst() && b.IsConst() {
			if a.Bool() {
				return c
			}
			return Not(c)
		}
	}
	return mk("ite", a.width, c, a, b)
}

// Resize converts a to width w (zero or sign extend / truncate).
func Resize(a *Term, w int, signed bool) *Term {
	if a.width == w {
		return a
	}
	if a.width == 0 {
		panic("resize of bool")
	}
	if a.IsConst() {
		if a.width < w && signed {
			return Const(w, uint64(sext(a.val, a.width)))
		}
		return Const(w, a.val)
	}
	if a.width > w {
		// extract of zext/sext of something narrower-or-equal
		if (a.op == "zext" || a.op == "sext") && a.args[0].width == w {
			return a.args[0]
		}
		if (a.op == "zext" || a.op == "sext") && a.args[0].width > w {
			return Resize(a.args[0], w, false)
		}
		return mk("extract", w, a)
	}
	if signed {
		return mk("sext", w, a)
	}
	if a.op == "zext" {
		return mk("zext", w, a.args[0])
	}
	return mk("zext", w, a)
}

func eqConst(a, b *Term) (bool, bool) {
	if a.IsConst() && b.IsConst() {
		if a.width == 0 {
			return a.Bool() == b.Bool(), true
		}
		return a.val == b.val, true
	}
	if a == b {
		return true, true
	}
	return false, false
}

func Eq(a, b *Term) *Term {
	if r, ok := eqConst(a, b); ok {
		return BoolC(r)
	}
	if a.width != b.width {
		panic(fmt.Sprintf("Eq width mismatch %d vs %d: %s / %s", a.width, b.width, a, b))
	}
	if a.width == 0 {
		return Iff(a, b)
	}
	// zext(x) == const  where const does not fit: false
	if b.IsConst() && a.op == "zext" {
		iw := a.args[0].width
		if b.val&^mask(iw) != 0 {
			return tFalse
		}
		return Eq(a.args[0], Const(iw, b.val))
	}
	if a.IsConst() && b.op == "zext" {
		return Eq(b, a)
	}
	return mk("=", 0, a, b)
}

// Bin builds a binary BV op with Go semantics; signed selects signed variants.
func Bin(op string, a, b *Term, signed bool) *Term {
	w := a.width
	if a.width != b.width {
		panic(fmt.Sprintf("Bin %s width mismatch %d vs %d", op, a.width, b.width))
	}
	if w == 0 {
		switch op {
		case "==":
			return Eq(a, b)
		case "!=":
			return Not(Eq(a, b))
		case "&", "&&":
			return And(a, b)
		case "|", "||":
			return Or(a, b)
		case "^":
			return Not(Eq(a, b))
		}
		panic("bool binop " + op)
	}
	if a.IsConst() && b.IsConst() {
		x, y := a.val, b.val
		sx, sy := sext(x, w), sext(y, w)
		switch op {
		case "+":
			return Const(w, x+y)
		case "-":
			return Const(w, x-y)
		case "*":
			return Const(w, x*y)
		case "&":
			return Const(w, x&y)
		case "|":
			return Const(w, x|y)
		case "^":
			return Const(w, x^y)
		case "&^":
			return Const(w, x&^y)
		case "/":
			if y == 0 {
				panic("div0")
			}
			if signed {
				return Const(w, uint64(sx/sy))
			}
			return Const(w, x/y)
		case "%":
			if y == 0 {
				panic("div0")
			}
			if signed {
				return Const(w, uint64(sx%sy))
			}
			return Const(w, x%y)
		case "==":
			return BoolC(x == y)
		case "!=":
			return BoolC(x != y)
		case "<":
			if signed {
				return BoolC(sx < sy)
			}
			return BoolC(x < y)
		case "<=":
			if signed {
				return BoolC(sx <= sy)
			}
			return BoolC(x <= y)
		case ">":
			if signed {
				return BoolC(sx > sy)
			}
			return BoolC(x > y)
		case ">=":
			if signed {
				return BoolC(sx >= sy)
			}
			return BoolC(x >= y)
		}
	}
	switch op {
	case "+":
		if b.IsConst() && b.val == 0 {
			return a
		}
		if a.IsConst() && a.val == 0 {
			return b
		}
		return mk("bvadd", w, a, b)
	case "-":
		if b.IsConst() && b.val == 0 {
			return a
		}
		return mk("bvsub", w, a, b)
	case "*":
		return mk("bvmul", w, a, b)
	case "&":
		if b.IsConst() && b.val == mask(w) {
			return a
		}
		if b.IsConst() && b.val == 0 {
			return b
		}
		return mk("bvand", w, a, b)
	case "|":
		if b.IsConst() && b.val == 0 {
			return a
		}
		if a.IsConst() && a.val == 0 {
			return b
		}
		return mk("bvor", w, a, b)
	case "^":
		return mk("bvxor", w, a, b)
	case "&^":
		return mk("bvand", w, a, mk("bvnot", w, b))
	case "/":
		if b.IsConst() && b.val != 0 && b.val&(b.val-1) == 0 && sext(b.val, w) > 0 {
			// division by a power of two: exact shift identities (solvers decide shifts far faster than bvsdiv)
			n := uint64(0)
			for (uint64(1) << n) != b.val {
				n++
			}
			if n == 0 {
				return a
			}
			if !signed {
				return mk("bvlshr", w, a, Const(w, n))
			}
			// round toward zero: (a + ((a >>s (w-1)) & (2^n-1))) >>s n
			bias := mk("bvand", w, mk("bvashr", w, a, Const(w, uint64(w-1))), Const(w, b.val-1))
			return mk("bvashr", w, mk("bvadd", w, a, bias), Const(w, n))
		}
		if signed {
			return mk("bvsdiv", w, a, b)
		}
		return mk("bvudiv", w, a, b)
	case "%":
		if !signed && b.IsConst() && b.val != 0 && b.val&(b.val-1) == 0 {
			return Bin("&", a, Const(w, b.val-1), false)
		}
		if signed {
			return mk("bvsrem", w, a, b)
		}
		return mk("bvurem", w, a, b)
	case "==":
		return Eq(a, b)
	case "!=":
		return Not(Eq(a, b))
	case "<":
		if signed {
			return mk("bvslt", 0, a, b)
		}
		return mk("bvult", 0, a, b)
	case "<=":
		if signed {
			return mk("bvsle", 0, a, b)
		}
		return mk("bvule", 0, a, b)
	case ">":
		if signed {
			return mk("bvsgt", 0, a, b)
		}
		return mk("bvugt", 0, a, b)
	case ">=":
		if signed {
			return mk("bvsge", 0, a, b)
		}
		return mk("bvuge", 0, a, b)
	}
	panic("binop " + op)
}

// Shift: Go semantics, shift count unsigned, >= width gives 0 (or sign fill).
func Shift(op string, a, b *Term, signed bool) *Term {
	w := a.width
	var bb *Term
	if b.width > w {
		// counts >= w saturate to w (bvshl/bvlshr by w gives 0; bvashr by w gives sign fill)
		bb = Ite(Bin(">=", b, Const(b.width, uint64(w)), false), Const(w, uint64(w)), Resize(b, w, false))
	} else {
		bb = Resize(b, w, false)
	}
	if a.IsConst() && bb.IsConst() {
		if op == "<<" {
			if bb.val >= uint64(w) {
				return Const(w, 0)
			}
			return Const(w, a.val<<bb.val)
		}
		if signed {
			s := bb.val
			if s >= uint64(w) {
				s = uint64(w - 1)
			}
			return Const(w, uint64(sext(a.val, w)>>s))
		}
		if bb.val >= uint64(w) {
			return Const(w, 0)
		}
		return Const(w, a.val>>bb.val)
	}
	if bb.IsConst() && bb.val == 0 {
		return a
	}
	o := "bvshl"
	if op == ">>" {
		o = "bvlshr"
		if signed {
			o = "bvashr"
		}
	}
	return mk(o, w, a, bb) // SMT bvshl/bvlshr by >= w gives 0, bvashr sign-fills: matches Go
}

// evalTerm evaluates a term under a model (var name -> value).
func evalTerm(t *Term, m map[string]uint64, memo map[*Term]uint64) uint64 {
	if v, ok := memo[t]; ok {
		return v
	}
	var r uint64
	b2u := func(b bool) uint64 {
		if b {
			return 1
		}
		return 0
	}
	ev := func(i int) uint64 { return evalTerm(t.args[i], m, memo) }
	switch t.op {
	case "const":
		r = t.val
	case "true":
		r = 1
	case "false":
		r = 0
	case "var":
		r = m[t.name] & func() uint64 {
			if t.width == 0 {
				return 1
			}
			return mask(t.width)
		}()
	case "not":
		r = 1 - ev(0)
	case "and":
		r = ev(0) & ev(1)
	case "or":
		r = ev(0) | ev(1)
	case "=":
		r = b2u(ev(0) == ev(1))
	case "ite":
		if ev(0) == 1 {
			r = ev(1)
		} else {
			r = ev(2)
		}
	case "zext":
		r = ev(0)
	case "sext":
		r = uint64(sext(ev(0), t.args[0].width)) & mask(t.width)
	case "extract":
		r = ev(0) & mask(t.width)
	case "bvnot":
		r = ^ev(0) & mask(t.width)
	default:
		a, b := ev(0), ev(1)
		w := t.args[0].width
		sa, sb := sext(a, w), sext(b, w)
		switch t.op {
		case "bvadd":
			r = (a + b) & mask(w)
		case "bvsub":
			r = (a - b) & mask(w)
		case "bvmul":
			r = (a * b) & mask(w)
		case "bvand":
			r = a & b
		case "bvor":
			r = a | b
		case "bvxor":
			r = a ^ b
		case "bvudiv":
			if b == 0 {
				r = mask(w)
			} else {
				r = a / b
			}
		case "bvurem":
			if b == 0 {
				r = a
			} else {
				r = a % b
			}
		case "bvsdiv":
			if b == 0 {
				if sa < 0 {
					r = 1
				} else {
					r = mask(w)
				}
			} else {
				r = uint64(sa/sb) & mask(w)
			}
		case "bvsrem":
			if b == 0 {
				r = a
			} else {
				r = uint64(sa%sb) & mask(w)
			}
		case "bvshl":
			if b >= uint64(w) {
				r = 0
			} else {
				r = (a << b) & mask(w)
			}
		case "bvlshr":
			if b >= uint64(w) {
				r = 0
			} else {
				r = a >> b
			}
		case "bvashr":
			s := b
			if s >= uint64(w) {
				s = uint64(w - 1)
			}
			r = uint64(sa>>s) & mask(w)
		case "bvult":
			r = b2u(a < b)
		case "bvule":
			r = b2u(a <= b)
		case "bvugt":
			r = b2u(a > b)
		case "bvuge":
			r = b2u(a >= b)
		case "bvslt":
			r = b2u(sa < sb)
		case "bvsle":
			r = b2u(sa <= sb)
		case "bvsgt":
			r = b2u(sa > sb)
		case "bvsge":
			r = b2u(sa >= sb)
		default:
			panic("evalTerm op " + t.op)
		}
	}
	memo[t] = r
	return r
}
