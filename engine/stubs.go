package main

import (
	"fmt"

	"golang.org/x/tools/go/ssa"
)

// ConnV models a net.Conn: scripted reads, recorded writes.
type ConnV struct {
	script    []*Term
	rd        int
	writes    [][]*Term
	flat      []*Term
	closed    bool
	deadlines []Struct
	failMode  int // 0 never fail, 1 each write may fail (decision), 2 always fail
	nFail     int
	wrAfterCl int
	blocking  bool // reads wait when the script is exhausted (until fed, EOF or closed)
	eof       bool
}

func (c *ConnV) readByte(ex *Exec) (*Term, Iface) {
	ex.syncPoint("conn.Read")
	if c == nil {
		return Const(8, 0), ex.sh.ioErr(ex, "EOF")
	}
	if c.closed {
		return Const(8, 0), ex.newErr("use of closed network connection")
	}
	if c.rd >= len(c.script) && c.blocking && !c.eof {
		// a live connection with nothing to read: the reader waits for more bytes, EOF or Close
		ex.block(func() bool { return c.rd < len(c.script) || c.eof || c.closed }, "conn read")
		if c.closed {
			return Const(8, 0), ex.newErr("use of closed network connection")
		}
	}
	if c.rd >= len(c.script) {
		return Const(8, 0), ex.sh.ioErr(ex, "EOF")
	}
	c.rd++
	return c.script[c.rd-1], Iface{}
}

func (c *ConnV) invoke(ex *Exec, m string, args []Value) Value {
	switch m {
	case "Write":
		ex.syncPoint("conn.Write")
		ts := ex.sliceTerms(args[0].(Slice))
		if c.closed {
			c.wrAfterCl++
			return Tuple{Const(64, 0), ex.newErr("use of closed network connection")}
		}
		fail := false
		switch c.failMode {
		case 1:
			k := ex.choose(2)
			ex.nd = append(ex.nd, ndEntry{Kind: "connfail", Int: k})
			fail = k == 1
		case 2:
			fail = true
		}
		if fail {
			c.nFail++
			return Tuple{Const(64, 0), ex.newErr("write: broken pipe (injected)")}
		}
		c.writes = append(c.writes, ts)
		c.flat = append(c.flat, ts...)
		return Tuple{Const(64, uint64(len(ts))), Iface{}}
	case "Read":
		dst := args[0].(Slice)
		if dst.len == 0 {
			return Tuple{Const(64, 0), Iface{}}
		}
		n := 0
		for n < dst.len {
			b, err := c.readByte(ex)
			if err.t != nil {
				if n == 0 {
					return Tuple{Const(64, 0), err}
				}
				break
			}
			dst.arr.v.(Array)[dst.off+n] = b
			n++
		}
		return Tuple{Const(64, uint64(n)), Iface{}}
	case "Close":
		ex.syncPoint("conn.Close")
		c.closed = true
		return Iface{}
	case "SetDeadline", "SetReadDeadline", "SetWriteDeadline":
		c.deadlines = append(c.deadlines, args[0].(Struct))
		return Iface{}
	case "RemoteAddr", "LocalAddr":
		return nativeIface(&AddrV{})
	}
	panic(pathAbort{"UNSUPPORTED conn method " + m})
}

type AddrV struct{}

func (a *AddrV) invoke(ex *Exec, m string, args []Value) Value {
	switch m {
	case "String":
		return strConst("10.0.0.1:1234")
	case "Network":
		return strConst("tcp")
	}
	panic(pathAbort{"UNSUPPORTED addr method " + m})
}

type CtxV struct {
	cancelled bool
	done      *ChanV
}

func (c *CtxV) invoke(ex *Exec, m string, args []Value) Value {
	switch m {
	case "Err":
		if c.cancelled {
			return ex.sh.ctxErr(ex)
		}
		return Iface{}
	case "Done":
		return c.done
	case "Value":
		return Iface{}
	}
	panic(pathAbort{"UNSUPPORTED context method " + m})
}

func (e *ErrV) invoke(ex *Exec, m string, args []Value) Value {
	switch m {
	case "Error":
		return e.msg
	case "Unwrap":
		if len(e.wraps) == 1 {
			return e.wraps[0]
		}
		return Iface{}
	}
	panic(pathAbort{"UNSUPPORTED error method " + m})
}

// BufRd models a bufio.Reader: over a ConnV byte by byte (buffering is transparent there), over any other
// io.Reader of the program (e.g. the WebSocket wsConn) with a real buffer filled by the reader's interpreted
// Read method, as bufio.(*Reader).fill does (up to 100 empty reads, then io.ErrNoProgress; a read error is
// reported once the buffered bytes are used up).
type BufRd struct {
	conn *ConnV
	rd   Iface
	size int
	buf  []*Term
	err  Iface
}

func (r *BufRd) readByte(ex *Exec) (*Term, Iface) {
	if r.rd.t == nil {
		return r.conn.readByte(ex)
	}
	for empty := 0; len(r.buf) == 0; empty++ {
		if r.err.t != nil {
			e := r.err
			r.err = Iface{}
			return Const(8, 0), e
		}
		if empty >= 100 {
			return Const(8, 0), ex.sh.ioErr(ex, "ErrNoProgress")
		}
		m := ex.lookupMethod(r.rd.t, "Read")
		if m == nil {
			panic(pathAbort{"UNSUPPORTED bufio over reader without Read: " + r.rd.t.String()})
		}
		arr := make(Array, r.size)
		for i := range arr {
			arr[i] = Const(8, 0)
		}
		p := Slice{arr: &Obj{v: arr}, len: r.size, cap: r.size}
		res := ex.call(m, []Value{r.rd.v, p}, nil).(Tuple)
		n := ex.concretize(res[0].(*Term), 0, r.size, true)
		if n < 0 || n > r.size {
			panic(&goPanic{msg: "bufio: reader returned negative count from Read"})
		}
		for i := 0; i < n; i++ {
			r.buf = append(r.buf, arr[i].(*Term))
		}
		r.err = res[1].(Iface)
	}
	b := r.buf[0]
	r.buf = r.buf[1:]
	return b, Iface{}
}

func (sh *Shared) pkgVar(ex *Exec, pkg, name string) Value {
	p := sh.prog.ImportedPackage(pkg)
	if p == nil {
		panic(pathAbort{"ENGINE package not loaded: " + pkg})
	}
	g, ok := p.Members[name].(*ssa.Global)
	if !ok {
		panic(pathAbort{"ENGINE no global " + pkg + "." + name})
	}
	return ex.global(g).v
}

func (sh *Shared) ioErr(ex *Exec, name string) Iface {
	return sh.pkgVar(ex, "io", name).(Iface)
}

func (sh *Shared) ctxErr(ex *Exec) Iface {
	v := sh.pkgVar(ex, "context", "Canceled")
	if i, ok := v.(Iface); ok && i.t != nil {
		return i
	}
	return ex.newErr("context canceled")
}

var _ = fmt.Sprint
