package main

import (
	"fmt"
	"go/types"
	"reflect"
	"strings"

	"golang.org/x/tools/go/ssa"
)

// Storage-engine boundary (C20-C22): badger, pebble, bbolt and go-redis are replaced by an abstract
// ordered key->record map at their ~30 call sites; encoding/json (reflection) is replaced at the four
// MarshalBinary/UnmarshalBinary pairs of hooks/storage by a "blob": a one-byte []byte/string whose byte
// is an index into a per-path table of deep-copied record values. Everything the repository does above
// that line (key construction, record building, event handling, Stored*, load*) is executed for real.

type kvOp struct {
	store string
	del   bool
	key   Str
	val   *Term // blob byte
}

type kvStore struct {
	keys []Str
	vals []*Term
}

type kvState struct {
	stores map[string]*kvStore
	log    []kvOp
	blobs  []Value
}

func (ex *Exec) kv() *kvState {
	if ex.kvs == nil {
		ex.kvs = &kvState{stores: map[string]*kvStore{}, blobs: []Value{nil}}
	}
	return ex.kvs
}

func (ex *Exec) kvStoreFor(db Ptr, ns string) (*kvStore, string) {
	name := db.key() + "/" + ns
	st := ex.kv().stores[name]
	if st == nil {
		st = &kvStore{}
		ex.kv().stores[name] = st
	}
	return st, name
}

func (st *kvStore) find(ex *Exec, k Str) int {
	alts := make([]alt, 0, len(st.keys)+1)
	none := tTrue
	for i, sk := range st.keys {
		e := ex.strEq(sk, k)
		if e.isFalse() {
			continue
		}
		alts = append(alts, alt{i, And(none, e)})
		none = And(none, Not(e))
	}
	alts = append(alts, alt{-1, none})
	return ex.decide(alts)
}

func (ex *Exec) kvSet(db Ptr, ns string, k Str, v *Term) {
	st, name := ex.kvStoreFor(db, ns)
	ex.kv().log = append(ex.kv().log, kvOp{store: name, key: k, val: v})
	if i := st.find(ex, k); i >= 0 {
		st.vals[i] = v
		return
	}
	st.keys = append(st.keys, k)
	st.vals = append(st.vals, v)
}

func (ex *Exec) kvDel(db Ptr, ns string, k Str) {
	st, name := ex.kvStoreFor(db, ns)
	ex.kv().log = append(ex.kv().log, kvOp{store: name, del: true, key: k})
	if i := st.find(ex, k); i >= 0 {
		st.keys = append(st.keys[:i:i], st.keys[i+1:]...)
		st.vals = append(st.vals[:i:i], st.vals[i+1:]...)
	}
}

func (ex *Exec) kvGet(db Ptr, ns string, k Str) (*Term, bool) {
	st, _ := ex.kvStoreFor(db, ns)
	if i := st.find(ex, k); i >= 0 {
		return st.vals[i], true
	}
	return nil, false
}

// kvScan returns the indices of the keys with the given prefix, in key order (decided with the solver).
func (ex *Exec) kvScan(db Ptr, ns string, prefix Str) []int {
	st, _ := ex.kvStoreFor(db, ns)
	var idx []int
	for i, k := range st.keys {
		if len(k) < len(prefix) {
			continue
		}
		if ex.branch(ex.strEq(k[:len(prefix)], prefix)) {
			idx = append(idx, i)
		}
	}
	// insertion sort by key (ordered stores iterate in key order)
	for i := 1; i < len(idx); i++ {
		for j := i; j > 0; j-- {
			if !ex.branch(ex.strLess(st.keys[idx[j]], st.keys[idx[j-1]])) {
				break
			}
			idx[j], idx[j-1] = idx[j-1], idx[j]
		}
	}
	return idx
}

func blobBytes(b *Term) Slice { return mkSlice([]*Term{b}) }

func (ex *Exec) newBlob(v Value) *Term {
	k := ex.kv()
	if len(k.blobs) >= 250 {
		panic(pathAbort{"BOUND more than 250 stored records on one path"})
	}
	k.blobs = append(k.blobs, newCopier().val(v))
	return Const(8, uint64(len(k.blobs)-1))
}

func (ex *Exec) blobOf(v Value) (Value, bool) {
	var t *Term
	switch x := v.(type) {
	case Slice:
		if x.len != 1 {
			return nil, false
		}
		t = x.arr.v.(Array)[x.off].(*Term)
	case Str:
		if len(x) != 1 {
			return nil, false
		}
		t = x[0]
	default:
		return nil, false
	}
	if !t.IsConst() || int(t.val) >= len(ex.kv().blobs) || t.val == 0 {
		return nil, false
	}
	return newCopier().val(ex.kv().blobs[t.val]), true
}

// errGlobal returns (creating on first use) the error value of a third-party package-level error variable.
func (ex *Exec) errGlobal(pkg, name string) Iface {
	p := ex.prog.ImportedPackage(pkg)
	if p != nil {
		if g, ok := p.Members[name].(*ssa.Global); ok {
			o, ok := ex.globals[g]
			if !ok {
				o = &Obj{v: errVal(&ErrV{msg: strConst(pkg + "." + name)})}
				ex.globals[g] = o
			}
			if i, ok := o.v.(Iface); ok {
				return i
			}
		}
	}
	return ex.newErr(pkg + "." + name)
}

type kvHandle struct {
	db Ptr
	ns string
}

// kvIter is the state of a badger iterator / pebble iterator / bolt cursor.
type kvIter struct {
	db     Ptr
	ns     string
	idx    []int
	pos    int
	prefix Str
	lower  Str
	upper  Str
	hasUp  bool
}

// concreteZero: v is certainly the zero / empty value (what `omitempty` omits)
func concreteZero(v Value) bool {
	switch x := v.(type) {
	case nil:
		return true
	case *Term:
		return x.IsConst() && x.val == 0
	case Str:
		return len(x) == 0
	case Slice:
		return x.len == 0
	case Ptr:
		return x.obj == nil
	case Iface:
		return x.t == nil
	case *Map:
		return x == nil || len(x.keys) == 0
	case Struct:
		for _, f := range x {
			if !concreteZero(f) {
				return false
			}
		}
		return true
	case Array:
		for _, f := range x {
			if !concreteZero(f) {
				return false
			}
		}
		return true
	}
	return false
}

// jsonMerge: the value of dst after json.Unmarshal(json.Marshal(src), &dst) for the struct type t of
// hooks/storage (tags: `json:"name,omitempty"`): fields whose key is present overwrite, nested structs are
// merged, and an `omitempty` field that is empty in src is absent and leaves dst's field as it was. Where dst's
// field is certainly empty anyway (a fresh value, the normal case) nothing has to be decided.
func (ex *Exec) jsonMerge(dst, src Value, t types.Type) Value {
	st, ok := src.(Struct)
	if !ok || t == nil {
		return src
	}
	ts, ok := t.Underlying().(*types.Struct)
	ds, ok2 := dst.(Struct)
	if !ok || !ok2 || ts.NumFields() != len(st) || len(ds) != len(st) {
		return src
	}
	out := make(Struct, len(st))
	for i := range st {
		tag := reflect.StructTag(ts.Tag(i)).Get("json")
		name, opts, _ := strings.Cut(tag, ",")
		if name == "-" {
			out[i] = ds[i]
			continue
		}
		omitempty := strings.Contains(opts, "omitempty")
		ft := ts.Field(i).Type()
		if _, isStruct := ft.Underlying().(*types.Struct); isStruct {
			out[i] = ex.jsonMerge(ds[i], st[i], ft) // structs are never "empty" for omitempty: always present, merged
			continue
		}
		if omitempty && !concreteZero(ds[i]) {
			// absent iff empty in src
			empty := concreteZero(st[i])
			if tm, isT := st[i].(*Term); isT && !tm.IsConst() {
				z := Const(tm.width, 0)
				if tm.width == 0 {
					empty = ex.branch(Not(tm))
				} else {
					empty = ex.branch(Eq(tm, z))
				}
			}
			if empty {
				out[i] = ds[i]
				continue
			}
		}
		out[i] = st[i]
	}
	return out
}

func handleOf(v Value) *kvHandle { return v.(Ptr).obj.v.(*kvHandle) }
func iterOf(v Value) *kvIter     { return v.(Ptr).obj.v.(*kvIter) }

func init() {
	T := intrinsicTable
	// ---------------- JSON line of hooks/storage ----------------
	const sp = "github.com/mochi-mqtt/server/v2/hooks/storage."
	for _, ty := range []string{"Client", "Message", "Subscription", "SystemInfo"} {
		T["("+sp+ty+").MarshalBinary"] = func(ex *Exec, fn *ssa.Function, args []Value) Value {
			return Tuple{blobBytes(ex.newBlob(args[0])), Iface{}}
		}
		T["(*"+sp+ty+").UnmarshalBinary"] = func(ex *Exec, fn *ssa.Function, args []Value) Value {
			data := args[1].(Slice)
			if data.len == 0 {
				return Iface{}
			}
			v, ok := ex.blobOf(data)
			if !ok {
				return ex.newErr("invalid JSON (not a stored record)")
			}
			// encoding/json leaves a field alone when its key is absent, and MarshalBinary leaves out every
			// `omitempty` field that is empty: unmarshalling into a value that is not fresh keeps its old content there
			dst := args[0].(Ptr)
			var rt types.Type
			if r := fn.Signature.Recv(); r != nil {
				if pt, ok := r.Type().Underlying().(*types.Pointer); ok {
					rt = pt.Elem()
				}
			}
			dst.store(ex.jsonMerge(dst.load(), v, rt))
			return Iface{}
		}
	}
	// opening the database is the engine's business: Init (options, file/network open) is not executed; the
	// harness constructs the hook with a placeholder handle
	for _, b := range []string{"bolt", "badger", "pebble", "redis"} {
		T["(*github.com/mochi-mqtt/server/v2/hooks/storage/"+b+".Hook).Init"] = func(ex *Exec, fn *ssa.Function, args []Value) Value {
			return Iface{}
		}
	}
	// ---------------- bbolt ----------------
	const bb = "go.etcd.io/bbolt."
	txFn := func(ex *Exec, fn *ssa.Function, args []Value) Value {
		tx := Ptr{obj: &Obj{v: &kvHandle{db: args[0].(Ptr)}}}
		return ex.doCall(args[1], []Value{tx})
	}
	T["(*"+bb+"DB).Update"] = txFn
	T["(*"+bb+"DB).View"] = txFn
	T["(*"+bb+"DB).Close"] = func(ex *Exec, fn *ssa.Function, args []Value) Value { return Iface{} }
	T["(*"+bb+"Tx).Bucket"] = func(ex *Exec, fn *ssa.Function, args []Value) Value {
		h := handleOf(args[0])
		return Ptr{obj: &Obj{v: &kvHandle{db: h.db, ns: strOf(toStr(args[1]))}}}
	}
	T["(*"+bb+"Tx).CreateBucketIfNotExists"] = func(ex *Exec, fn *ssa.Function, args []Value) Value {
		h := handleOf(args[0])
		return Tuple{Ptr{obj: &Obj{v: &kvHandle{db: h.db, ns: strOf(toStr(args[1]))}}}, Iface{}}
	}
	T["(*"+bb+"Bucket).Put"] = func(ex *Exec, fn *ssa.Function, args []Value) Value {
		h := handleOf(args[0])
		ex.kvSet(h.db, h.ns, toStr(args[1]), toStr(args[2])[0])
		return Iface{}
	}
	T["(*"+bb+"Bucket).Delete"] = func(ex *Exec, fn *ssa.Function, args []Value) Value {
		h := handleOf(args[0])
		ex.kvDel(h.db, h.ns, toStr(args[1]))
		return Iface{}
	}
	T["(*"+bb+"Bucket).Get"] = func(ex *Exec, fn *ssa.Function, args []Value) Value {
		h := handleOf(args[0])
		if v, ok := ex.kvGet(h.db, h.ns, toStr(args[1])); ok {
			return blobBytes(v)
		}
		return Slice{}
	}
	T["(*"+bb+"Bucket).Cursor"] = func(ex *Exec, fn *ssa.Function, args []Value) Value {
		h := handleOf(args[0])
		return Ptr{obj: &Obj{v: &kvIter{db: h.db, ns: h.ns}}}
	}
	cursorAt := func(ex *Exec, it *kvIter) Value {
		st, _ := ex.kvStoreFor(it.db, it.ns)
		if it.pos >= len(it.idx) {
			return Tuple{Slice{}, Slice{}}
		}
		i := it.idx[it.pos]
		return Tuple{mkSlice(append([]*Term{}, st.keys[i]...)), blobBytes(st.vals[i])}
	}
	T["(*"+bb+"Cursor).Seek"] = func(ex *Exec, fn *ssa.Function, args []Value) Value {
		it := iterOf(args[0])
		seek := toStr(args[1])
		// all keys in order, positioned at the first key >= seek
		st, _ := ex.kvStoreFor(it.db, it.ns)
		it.idx = ex.kvScan(it.db, it.ns, Str{})
		it.pos = 0
		for it.pos < len(it.idx) && ex.branch(ex.strLess(st.keys[it.idx[it.pos]], seek)) {
			it.pos++
		}
		return cursorAt(ex, it)
	}
	T["(*"+bb+"Cursor).Next"] = func(ex *Exec, fn *ssa.Function, args []Value) Value {
		it := iterOf(args[0])
		it.pos++
		return cursorAt(ex, it)
	}
	// ---------------- badger ----------------
	const bd = "github.com/dgraph-io/badger/v4."
	T["(*"+bd+"DB).Update"] = txFn
	T["(*"+bd+"DB).View"] = txFn
	T["(*"+bd+"DB).Close"] = func(ex *Exec, fn *ssa.Function, args []Value) Value { return Iface{} }
	T["(*"+bd+"Txn).Set"] = func(ex *Exec, fn *ssa.Function, args []Value) Value {
		h := handleOf(args[0])
		ex.kvSet(h.db, "", toStr(args[1]), toStr(args[2])[0])
		return Iface{}
	}
	T["(*"+bd+"Txn).Delete"] = func(ex *Exec, fn *ssa.Function, args []Value) Value {
		h := handleOf(args[0])
		ex.kvDel(h.db, "", toStr(args[1]))
		return Iface{}
	}
	T["(*"+bd+"Txn).Get"] = func(ex *Exec, fn *ssa.Function, args []Value) Value {
		h := handleOf(args[0])
		if v, ok := ex.kvGet(h.db, "", toStr(args[1])); ok {
			return Tuple{Ptr{obj: &Obj{v: &kvItem{v}}}, Iface{}}
		}
		return Tuple{Ptr{}, ex.errGlobal("github.com/dgraph-io/badger/v4", "ErrKeyNotFound")}
	}
	T["(*"+bd+"Item).ValueCopy"] = func(ex *Exec, fn *ssa.Function, args []Value) Value {
		return Tuple{blobBytes(args[0].(Ptr).obj.v.(*kvItem).v), Iface{}}
	}
	T["(*"+bd+"Txn).NewIterator"] = func(ex *Exec, fn *ssa.Function, args []Value) Value {
		h := handleOf(args[0])
		return Ptr{obj: &Obj{v: &kvIter{db: h.db}}}
	}
	T["(*"+bd+"Iterator).Seek"] = func(ex *Exec, fn *ssa.Function, args []Value) Value {
		it := iterOf(args[0])
		seek := toStr(args[1])
		st, _ := ex.kvStoreFor(it.db, it.ns)
		it.idx = ex.kvScan(it.db, it.ns, Str{})
		it.pos = 0
		for it.pos < len(it.idx) && ex.branch(ex.strLess(st.keys[it.idx[it.pos]], seek)) {
			it.pos++
		}
		return nil
	}
	T["(*"+bd+"Iterator).ValidForPrefix"] = func(ex *Exec, fn *ssa.Function, args []Value) Value {
		it := iterOf(args[0])
		p := toStr(args[1])
		if it.pos >= len(it.idx) {
			return tFalse
		}
		st, _ := ex.kvStoreFor(it.db, it.ns)
		k := st.keys[it.idx[it.pos]]
		if len(k) < len(p) {
			return tFalse
		}
		return ex.strEq(k[:len(p)], p)
	}
	T["(*"+bd+"Iterator).Next"] = func(ex *Exec, fn *ssa.Function, args []Value) Value {
		iterOf(args[0]).pos++
		return nil
	}
	T["(*"+bd+"Iterator).Item"] = func(ex *Exec, fn *ssa.Function, args []Value) Value {
		it := iterOf(args[0])
		st, _ := ex.kvStoreFor(it.db, it.ns)
		return Ptr{obj: &Obj{v: &kvItem{st.vals[it.idx[it.pos]]}}}
	}
	T["(*"+bd+"Iterator).Close"] = func(ex *Exec, fn *ssa.Function, args []Value) Value { return nil }
	// ---------------- pebble ----------------
	const pb = "github.com/cockroachdb/pebble."
	T["(*"+pb+"DB).Set"] = func(ex *Exec, fn *ssa.Function, args []Value) Value {
		ex.kvSet(args[0].(Ptr), "", toStr(args[1]), toStr(args[2])[0])
		return Iface{}
	}
	T["(*"+pb+"DB).Delete"] = func(ex *Exec, fn *ssa.Function, args []Value) Value {
		ex.kvDel(args[0].(Ptr), "", toStr(args[1]))
		return Iface{}
	}
	T["(*"+pb+"DB).Get"] = func(ex *Exec, fn *ssa.Function, args []Value) Value {
		if v, ok := ex.kvGet(args[0].(Ptr), "", toStr(args[1])); ok {
			return Tuple{blobBytes(v), Iface{}, Iface{}}
		}
		return Tuple{Slice{}, Iface{}, ex.errGlobal("github.com/cockroachdb/pebble", "ErrNotFound")}
	}
	T["(*"+pb+"DB).Close"] = func(ex *Exec, fn *ssa.Function, args []Value) Value { return Iface{} }
	T["(*"+pb+"DB).NewIter"] = func(ex *Exec, fn *ssa.Function, args []Value) Value {
		it := &kvIter{db: args[0].(Ptr)}
		if o, ok := args[1].(Ptr); ok && o.obj != nil {
			// IterOptions{LowerBound, UpperBound, ...}: the first two fields
			opts := o.load().(Struct)
			if lb, ok := opts[0].(Slice); ok && lb.arr != nil {
				it.lower = toStr(lb)
			}
			if ub, ok := opts[1].(Slice); ok && ub.arr != nil {
				it.upper, it.hasUp = toStr(ub), true
			}
		}
		return Tuple{Ptr{obj: &Obj{v: it}}, Iface{}}
	}
	T["(*"+pb+"Iterator).First"] = func(ex *Exec, fn *ssa.Function, args []Value) Value {
		it := iterOf(args[0])
		st, _ := ex.kvStoreFor(it.db, it.ns)
		all := ex.kvScan(it.db, it.ns, Str{})
		it.idx = it.idx[:0]
		for _, i := range all {
			k := st.keys[i]
			if ex.branch(ex.strLess(k, it.lower)) {
				continue // below the lower bound
			}
			if it.hasUp && !ex.branch(ex.strLess(k, it.upper)) {
				continue // at or above the (exclusive) upper bound
			}
			it.idx = append(it.idx, i)
		}
		it.pos = 0
		return BoolC(len(it.idx) > 0)
	}
	T["(*"+pb+"Iterator).Valid"] = func(ex *Exec, fn *ssa.Function, args []Value) Value {
		it := iterOf(args[0])
		return BoolC(it.pos < len(it.idx))
	}
	T["(*"+pb+"Iterator).Next"] = func(ex *Exec, fn *ssa.Function, args []Value) Value {
		it := iterOf(args[0])
		it.pos++
		return BoolC(it.pos < len(it.idx))
	}
	T["(*"+pb+"Iterator).Value"] = func(ex *Exec, fn *ssa.Function, args []Value) Value {
		it := iterOf(args[0])
		st, _ := ex.kvStoreFor(it.db, it.ns)
		return blobBytes(st.vals[it.idx[it.pos]])
	}
	T["(*"+pb+"Iterator).Close"] = func(ex *Exec, fn *ssa.Function, args []Value) Value { return Iface{} }
	// ---------------- go-redis ----------------
	const rd = "github.com/go-redis/redis/v8."
	cmd := func(val Value, err Iface) Value { return Ptr{obj: &Obj{v: &redisCmd{val: val, err: err}}} }
	hset := func(ex *Exec, fn *ssa.Function, args []Value) Value {
		// HSet(ctx, key, values ...interface{}): (field, value) pairs; the value is a storage record implementing
		// encoding.BinaryMarshaler, which go-redis marshals itself
		db := ex.redisDB(args[0])
		ns := strOf(args[2].(Str))
		vals := sliceElems(args[3].(Slice))
		for i := 0; i+1 < len(vals); i += 2 {
			field := vals[i].(Iface).v.(Str)
			rec := vals[i+1].(Iface)
			var v Value
			if p, ok := rec.v.(Ptr); ok {
				v = p.load()
			} else {
				v = rec.v
			}
			ex.kvSet(db, ns, field, ex.newBlob(v))
		}
		return cmd(Const(64, 1), Iface{})
	}
	hdel := func(ex *Exec, fn *ssa.Function, args []Value) Value {
		db := ex.redisDB(args[0])
		ns := strOf(args[2].(Str))
		for _, f := range sliceElems(args[3].(Slice)) {
			ex.kvDel(db, ns, f.(Str))
		}
		return cmd(Const(64, 1), Iface{})
	}
	hgetall := func(ex *Exec, fn *ssa.Function, args []Value) Value {
		db := ex.redisDB(args[0])
		ns := strOf(args[2].(Str))
		st, _ := ex.kvStoreFor(db, ns)
		m := &Map{}
		for i := range st.keys {
			ex.mapSet(m, st.keys[i], Str{st.vals[i]})
		}
		return cmd(m, Iface{})
	}
	hget := func(ex *Exec, fn *ssa.Function, args []Value) Value {
		db := ex.redisDB(args[0])
		ns := strOf(args[2].(Str))
		if v, ok := ex.kvGet(db, ns, args[3].(Str)); ok {
			return cmd(Str{v}, Iface{})
		}
		// redis.Nil is the constant proto.RedisError("redis: nil")
		if p := ex.prog.ImportedPackage("github.com/go-redis/redis/v8/internal/proto"); p != nil {
			if tn := p.Type("RedisError"); tn != nil {
				return cmd(Str{}, Iface{t: tn.Type(), v: strConst("redis: nil")})
			}
		}
		return cmd(Str{}, ex.errGlobal("github.com/go-redis/redis/v8", "Nil"))
	}
	for _, recv := range []string{"(" + rd + "cmdable)", "(*" + rd + "Client)", "(" + rd + "Client)"} {
		T[recv+".HSet"] = hset
		T[recv+".HDel"] = hdel
		T[recv+".HGetAll"] = hgetall
		T[recv+".HGet"] = hget
	}
	for _, ty := range []string{"IntCmd", "StringStringMapCmd", "StringCmd", "baseCmd"} {
		T["(*"+rd+ty+").Err"] = func(ex *Exec, fn *ssa.Function, args []Value) Value {
			return args[0].(Ptr).obj.v.(*redisCmd).err
		}
		T["(*"+rd+ty+").Result"] = func(ex *Exec, fn *ssa.Function, args []Value) Value {
			c := args[0].(Ptr).obj.v.(*redisCmd)
			return Tuple{c.val, c.err}
		}
	}
	T["(*"+rd+"Client).Close"] = func(ex *Exec, fn *ssa.Function, args []Value) Value { return Iface{} }
	// ---------------- harness access to the abstract store ----------------
	vrtTable["vKVLogLen"] = func(ex *Exec, fn *ssa.Function, args []Value) Value {
		return Const(64, uint64(len(ex.kv().log)))
	}
	// vKVCrash(n): the process dies after the first n storage writes: every store is rebuilt from the log prefix
	vrtTable["vKVCrash"] = func(ex *Exec, fn *ssa.Function, args []Value) Value {
		n := constInt(args[0], "vKVCrash index")
		k := ex.kv()
		if n < 0 || n > len(k.log) {
			panic(pathAbort{"HARNESS crash index out of range"})
		}
		old := k.log
		k.stores = map[string]*kvStore{}
		k.log = nil
		for _, op := range old[:n] {
			st := k.stores[op.store]
			if st == nil {
				st = &kvStore{}
				k.stores[op.store] = st
			}
			i := st.find(ex, op.key)
			switch {
			case op.del && i >= 0:
				st.keys = append(st.keys[:i:i], st.keys[i+1:]...)
				st.vals = append(st.vals[:i:i], st.vals[i+1:]...)
			case !op.del && i >= 0:
				st.vals[i] = op.val
			case !op.del:
				st.keys = append(st.keys, op.key)
				st.vals = append(st.vals, op.val)
			}
		}
		k.log = append([]kvOp{}, old[:n]...)
		return nil
	}
	vrtTable["vKVKeys"] = func(ex *Exec, fn *ssa.Function, args []Value) Value {
		n := 0
		for _, st := range ex.kv().stores {
			n += len(st.keys)
		}
		return Const(64, uint64(n))
	}
}

// redisDB: go-redis methods hang off an embedded func value (cmdable), so the receiver does not identify the
// client; all redis hooks of one path talk to one server, which is what a restarted broker does anyway.
var redisObj = &Obj{note: "redis-server"}

func (ex *Exec) redisDB(recv Value) Ptr {
	if p, ok := recv.(Ptr); ok && p.obj != nil {
		return p
	}
	return Ptr{obj: redisObj}
}

type kvItem struct{ v *Term }
type redisCmd struct {
	val Value
	err Iface
}

var _ = fmt.Sprint
var _ = strings.HasPrefix
