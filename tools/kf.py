#!/usr/bin/env python3
"""kf.py known|fixed PROP HARNESS LABEL WHAT [COMMIT]  — maintain known_findings.json by hand (never at check run time)."""
import json, sys, os
root = os.path.dirname(os.path.dirname(os.path.abspath(__file__)))
f = os.path.join(root, "known_findings.json")
kf = json.load(open(f))
kind, prop, harness, label, what = sys.argv[1:6]
e = {"property": prop, "kind": kind, "harness": harness, "label": label, "what": what}
if kind == "fixed":
    e["commit"] = sys.argv[6]
    e["line"] = f"fixed: property={prop} {sys.argv[6]} {what}"
else:
    e["line"] = f"KNOWN-FINDING: property={prop} {what}"
kf = [k for k in kf if not (k["property"] == prop and k["harness"] == harness and k["label"] == label)]
kf.append(e)
json.dump(kf, open(f, "w"), indent=1)
