#!/usr/bin/env python3
"""Generates harness/hooks_storage_<backend>/ from the shared template (same harness text for the four back ends)."""
import os
root = os.path.dirname(os.path.dirname(os.path.abspath(__file__)))
tmpl = open(os.path.join(root, "harness/_tmpl/storage_c20.go.tmpl")).read()
B = {
 "bolt":   ('"go.etcd.io/bbolt"', 'return &Hook{config: &Options{Bucket: "mochi"}, db: new(bbolt.DB)}',
            'return &Options{Path: filepath.Join(dir, "bolt.db")}'),
 "badger": ('badgerdb "github.com/dgraph-io/badger/v4"', 'return &Hook{config: &Options{}, db: new(badgerdb.DB)}',
            'return &Options{Path: dir}'),
 "pebble": ('pebbledb "github.com/cockroachdb/pebble"', 'return &Hook{config: &Options{}, db: new(pebbledb.DB), mode: &pebbledb.WriteOptions{}}',
            'return &Options{Path: dir}'),
 "redis":  ('"context"\n\tminiredis "github.com/alicebob/miniredis/v2"\n\t"github.com/go-redis/redis/v8"', 'return &Hook{config: &Options{HPrefix: "mochi-"}, db: new(redis.Client), ctx: context.Background()}',
            'srv, err := miniredis.Run()\n\tif err != nil {\n\t\tpanic(err)\n\t}\n\t_ = dir\n\treturn &Options{Options: &redis.Options{Addr: srv.Addr()}}'),
}
for b, (imp, ctor, native) in B.items():
    d = os.path.join(root, "harness", "hooks_storage_" + b)
    os.makedirs(d, exist_ok=True)
    open(os.path.join(d, "c20.go"), "w").write(tmpl.replace("PKGNAME", b).replace("BACKEND", b))
    open(os.path.join(d, "hook.go"), "w").write(f'''package {b}

import (
\t"io"
\t"log/slog"
\t"os"
\t"path/filepath"

\tmqtt "github.com/mochi-mqtt/server/v2"
\t{imp}
)

var _ = filepath.Join

// vFreshConfig: options naming a fresh, empty database of this back end (native replay only)
func vFreshConfig() *Options {{
\tdir, err := os.MkdirTemp("", "verif-{b}-")
\tif err != nil {{
\t\tpanic(err)
\t}}
\t{native}
}}

// VerifNewHook: under the symbolic engine a hook whose database handle is a placeholder (every call the
// package makes on it is served by the engine's abstract store); natively (replay) a hook on a real, fresh
// database of this back end. For direct use; a hook that goes into a server comes from VerifAddNewHook.
func VerifNewHook() *Hook {{
\tif vNative() {{
\t\th := new(Hook)
\t\th.SetOpts(slog.New(slog.NewTextHandler(io.Discard, nil)), nil)
\t\tif err := h.Init(vFreshConfig()); err != nil {{
\t\t\tpanic(err)
\t\t}}
\t\treturn h
\t}}
\t{ctor}
}}

// VerifAddNewHook adds a storage hook to s: Server.AddHook calls Init, which the engine stubs (the placeholder
// handle stays) and which natively opens the fresh database named by the config.
func VerifAddNewHook(s *mqtt.Server) *Hook {{
\tif vNative() {{
\t\th := new(Hook)
\t\tif err := s.AddHook(h, vFreshConfig()); err != nil {{
\t\t\tpanic(err)
\t\t}}
\t\treturn h
\t}}
\th := VerifNewHook()
\t_ = s.AddHook(h, nil)
\treturn h
}}

// VerifShareStore: hook dst opens the same database as src (a restarted broker)
func VerifShareStore(dst, src *Hook) {{ dst.db = src.db }}
''')
print("ok")
