#!/bin/bash
# sweep_thorough.sh : for `vp run`: builds symgo inside the snapshot and runs every check's thorough tier there
# (VERIF_ROOT = the snapshot), niced; prints one line per check.
set -u
root=$(pwd)
(cd engine && GOFLAGS=-mod=vendor GOPROXY=off GOTOOLCHAIN=local go build -o $root/bin/symgo .) || exit 3
export VERIF_ROOT=$root
[ -n "${VP_RUN_REPO:-}" ] && export VERIF_REPO=$VP_RUN_REPO
for c in $(ls checks | sed 's/.json//'); do
  t0=$(date +%s)
  out=$(nice -n 10 $root/bin/symgo check $c thorough 2>&1); rc=$?
  echo "$c rc=$rc $(( $(date +%s) - t0 ))s $(echo "$out" | grep -E '^(OK|BROKEN|VIOLATION)' | head -3 | cut -c1-220 | tr '\n' ' ')"
done
