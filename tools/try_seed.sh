#!/bin/bash
# try_seed.sh <seed-dir> <name> <check-id>... : confirm a seeded change in a scratch worktree, then run checks against it in /repo.
set -u
SD=$1; NAME=$2; shift 2
export GOFLAGS=-mod=mod GOPROXY=off GOSUMDB=off GOTOOLCHAIN=local
WT=/tmp/confirm_$NAME
git -C /repo worktree remove --force $WT 2>/dev/null
git -C /repo worktree add --detach $WT HEAD -q || exit 3
place=$(head -1 $SD/demo_test.go | sed -n 's#^// place at: *##p')
[ -z "$place" ] && place=zz_demo_test.go
pkgdir=$(dirname $place)
echo "== demo without change"
cp $SD/demo_test.go $WT/$place
(cd $WT/$pkgdir && go test -vet=off -count=1 -run 'TestSeedDemo' . 2>&1 | tail -3); r0=${PIPESTATUS[0]}
echo "== apply patch"
git -C $WT apply $SD/patch.diff || { echo "PATCH DOES NOT APPLY"; git -C /repo worktree remove --force $WT; exit 3; }
(cd $WT && go build ./... ) || echo "BUILD FAILS"
echo "== demo with change"
(cd $WT/$pkgdir && go test -vet=off -count=1 -run 'TestSeedDemo' . 2>&1 | tail -3)
echo "== existing tests with change (demo removed)"
rm $WT/$place
pk=$(git -C $WT diff --name-only | xargs -n1 dirname | sort -u | sed 's#^#./#')
(cd $WT && go test -vet=off -count=1 $pk 2>&1 | tail -5)
git -C /repo worktree remove --force $WT
echo "== checks against the change (scratch copy of the repository: VERIF_REPO)"
SR=/tmp/seedrepo
[ -d $SR ] || git -C /repo worktree add --detach $SR HEAD -q
git -C $SR checkout -q --detach $(git -C /repo rev-parse HEAD) && git -C $SR checkout -- . && git -C $SR clean -fdq
git -C $SR apply $SD/patch.diff || { echo "cannot apply to the scratch repository"; exit 3; }
for c in "$@"; do
  VERIF_REPO=$SR /verif/bin/symgo check $c quick 2>/dev/null | grep -v "^KNOWN-FINDING" | head -6; echo "exit($c)=${PIPESTATUS[0]}"
done
git -C $SR checkout -- . ; git -C $SR status --short | head -3
