#!/bin/bash
# run_all.sh <tier> [ids...] : runs the registered checks one after the other and prints one line per check
tier=${1:-quick}; shift
ids="$@"
[ -z "$ids" ] && ids=$(ls /verif/checks | sed 's/.json//')
for c in $ids; do
  out=$(/verif/bin/symgo check $c $tier 2>&1); rc=$?
  echo "$c rc=$rc $(echo "$out" | grep -E '^(OK|BROKEN|VIOLATION)' | head -3 | cut -c1-200 | tr '\n' ' ')"
  echo "$out" | grep '^KNOWN-FINDING' | sed "s/^/$c /" >> /verif/.scratch/known_printed.log
done
