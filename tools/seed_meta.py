#!/usr/bin/env python3
"""seed_meta.py <seed-name> <property> <caught-by(comma list or 'none')> <note> : writes seeded/<name>/meta.json"""
import json, sys, os
root = os.path.dirname(os.path.dirname(os.path.abspath(__file__)))
name, prop, caught, note = sys.argv[1:5]
d = os.path.join(root, "seeded", name)
am = {}
try: am = json.load(open(os.path.join(d, "agent_meta.json")))
except Exception: pass
meta = {
 "property": prop,
 "breaks": am.get("what_it_breaks", ""),
 "needs_to_manifest": am.get("needs_to_manifest", ""),
 "files_changed": am.get("files_changed", []),
 "origin": "independent sub-agent given only the property text and a scratch worktree",
 "confirmed_by_me": "tools/try_seed.sh: fresh scratch worktree of /repo HEAD: demo passes without the patch, patch applies and builds, demo fails with it, existing tests of the touched packages pass with it (demo removed)",
 "checks_run_against_it": "git -C /repo apply patch.diff; symgo check <id> quick; git -C /repo checkout -- .",
 "caught_by": [] if caught == "none" else caught.split(","),
 "note": note,
}
json.dump(meta, open(os.path.join(d, "meta.json"), "w"), indent=1)
