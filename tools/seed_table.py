#!/usr/bin/env python3
"""Regenerates the seeded-changes table of DESIGN.md (between the SEEDTABLE markers) from seeded/*/meta.json."""
import json, os, glob, re
root = os.path.dirname(os.path.dirname(os.path.abspath(__file__)))
rows = ["| seed | change (files) | caught by | note |", "|---|---|---|---|"]
for d in sorted(glob.glob(os.path.join(root, "seeded", "*"))):
    mp = os.path.join(d, "meta.json")
    if not os.path.exists(mp): continue
    m = json.load(open(mp))
    note = (m.get("note") or m.get("breaks") or "").replace("|", "/").replace("\n", " ")
    if len(note) > 420: note = note[:417] + "..."
    caught = ", ".join(m.get("caught_by") or []) or "**missed**"
    rows.append("| %s | %s | %s | %s |" % (os.path.basename(d), ", ".join(m.get("files_changed") or []), caught, note))
table = "<!-- SEEDTABLE:BEGIN -->\n" + "\n".join(rows) + "\n<!-- SEEDTABLE:END -->"
p = os.path.join(root, "DESIGN.md")
s = open(p).read()
if "<!-- SEEDTABLE:BEGIN -->" in s:
    s = re.sub(r"<!-- SEEDTABLE:BEGIN -->.*?<!-- SEEDTABLE:END -->", lambda _: table, s, flags=re.S)
else:
    s = s.replace("SEEDTABLE", table, 1)
open(p, "w").write(s)
print("seeds:", len(rows) - 2)
