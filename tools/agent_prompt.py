import json,sys
pid=sys.argv[1]
props={json.loads(l)["id"]:json.loads(l) for l in open('/verif/properties.jsonl') if l.strip()}
p=props[pid]
print(f"""You are helping test a verification effort for the Go project mochi-mqtt/server (an embeddable MQTT v5/v3.1.1 broker). You have your own scratch git worktree of the project at /tmp/wt_{pid} (a detached checkout; work ONLY inside it and inside /tmp/seed_{pid}; never touch /repo or /verif, and do not read anything under /verif).

The project is supposed to satisfy this property:

  Title: {p['title']}
  Statement: {p['statement']}

Your task: produce ONE realistic source change (a plausible bug a developer could introduce: an off-by-one, a dropped or inverted condition, a wrong variable, a missing call, a reordering ...) to the non-test Go code in /tmp/wt_{pid} that BREAKS this property, while
  (a) the project still compiles (`cd /tmp/wt_{pid} && go build ./...`), and
  (b) the project's existing tests in the packages you touched still pass (`cd /tmp/wt_{pid} && go test -vet=off -count=1 <pkgs>`; at least `.` and `./packets` and any other package you changed; run each twice - one root-package test, TestPublishToClientSubscriptionDowngradeQos, is known to be flaky on its own and may be ignored).
Prefer a change that needs something SPECIFIC to manifest (an unusual input, a particular sequence of operations, a boundary value, a particular combination of options, two cooperating sites that each look fine alone) rather than one that ordinary use exposes at once. Do not edit or delete existing tests. Do not change exported signatures.

Also write a demonstration: a new Go test file (package-internal, e.g. /tmp/wt_{pid}/zz_demo_test.go or in the sub-package you changed) with a test function whose name starts with TestSeedDemo, that FAILS with your change applied and PASSES on the unchanged code. Verify both facts yourself (use `git apply -R` / `git apply` of your saved patch; do NOT use `git stash`: the stash is shared between worktrees) and say what you ran.

Environment notes: no network; set `export GOFLAGS=-mod=mod GOPROXY=off GOSUMDB=off` before go commands. The go toolchain is on PATH.

Deliverables, written to /tmp/seed_{pid}/ :
  - patch.diff  : `git -C /tmp/wt_{pid} diff` of the NON-test source change only (must apply with `git apply` to a clean checkout)
  - demo_test.go : the demonstration test file, plus a first-line comment `// place at: <path relative to repo root>`
  - meta.json : {{"property": "{pid}", "files_changed": [...], "what_it_breaks": "...", "needs_to_manifest": "...", "commands_run": [...], "demo_fails_with_change": true/false, "demo_passes_without_change": true/false, "existing_tests_pass_with_change": true/false}}
Leave the worktree with your change applied. In your final message, summarise the change in 3-4 sentences.""")
