#!/usr/bin/env python3
"""Regenerates /verif/MANIFEST.json from checks/*.json and not_applicable.json."""
import json, glob, os, sys
root = os.path.dirname(os.path.dirname(os.path.abspath(__file__)))
props = [json.loads(l) for l in open(os.path.join(root, "properties.jsonl")) if l.strip()]
ids = [p["id"] for p in props]
na = json.load(open(os.path.join(root, "not_applicable.json")))
checks = []
claimed = set()
for f in sorted(glob.glob(os.path.join(root, "checks", "C*.json"))):
    c = json.load(open(f))
    if c.get("disabled"):
        continue
    cid = c["id"]
    claimed.add(cid)
    entry = {
        "property_id": cid,
        "quick_cmd": f"/verif/bin/symgo check {cid} quick",
        "evidence_file": f"/verif/evidence/{cid}.json",
        "replay_cmd_template": "/verif/bin/symgo replay {path}",
        "engine": "symgo",
        "level_claimed": {
            "category": "model_checking",
            "text": c.get("level_text", "Bounded symbolic execution of the real functions (go/ssa) with every branch and assertion decided by an SMT solver: within the stated bounds the verdict covers all input values; counterexamples are replayed against the native build."),
            "design_ref": c.get("design_ref", "DESIGN.md §6 " + cid),
        },
        "level_note": c.get("level_note", "Trusted: the symgo SSA->SMT translation (validated by native witness replay), z3, the harness oracle; bounds as stated in the evidence file."),
        "technique": c.get("technique", "bounded symbolic execution of go/ssa + SMT (z3)"),
    }
    if c.get("thorough"):
        entry["thorough_cmd"] = f"/verif/bin/symgo check {cid} thorough"
    checks.append(entry)
nal = []
for i in ids:
    if i in claimed:
        continue
    reason = na.get(i, "check not built yet in this session (work in progress; see DESIGN.md §6 for the planned encoding)")
    nal.append({"property_id": i, "reason": reason})
hooks = json.load(open(os.path.join(root, "hooks.json"))) if os.path.exists(os.path.join(root, "hooks.json")) else {}
m = {
    "version": 1,
    "setup_cmd": "cd /verif/engine && GOFLAGS=-mod=vendor GOPROXY=off GOTOOLCHAIN=local go build -o /verif/bin/symgo . && /verif/bin/symgo selftest",
    "hooks": {
        "guard": "verif",
        "enable": "go build -tags verif (no source hooks are needed by the registered checks: harnesses are injected as in-package overlay files, never written under /repo)",
        "baseline_off_cmd": "cd /repo && go test -vet=off -count=1 -timeout 25m ./...",
        "source_commits": hooks.get("source_commits", []),
        "add_only": True,
    },
    "engines": [{"name": "symgo", "path": "/verif/engine", "serves_properties": sorted(claimed),
                 "kind_free_text": "own bounded symbolic executor for Go: go/ssa -> SMT-LIB2 bit-vector terms, DFS over solver-decided branches by re-execution, z3 over a persistent pipe, native replay of models via go test -overlay"}],
    "checks": checks,
    "not_applicable": nal,
    "notes": "All checks are one technique family: solver-based bounded checking of the real code (see DESIGN.md). Exit 0 = holds within bounds; 1 = VIOLATION (replayed natively); 2 = check inconclusive/broken (bound exceeded, unsupported construct, solver unknown, engine/native mismatch).",
}
json.dump(m, open(os.path.join(root, "MANIFEST.json"), "w"), indent=1)
print("checks:", len(checks), "not_applicable:", len(nal))
