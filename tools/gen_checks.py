#!/usr/bin/env python3
"""Writes checks/<ID>.json (bounds, harness lists) — the single place where bounds are stated."""
import json, os
root = os.path.dirname(os.path.dirname(os.path.abspath(__file__)))
C = {}
ENGINE_TB = ["symgo engine (go/ssa -> SMT-LIB2 translation, validated by native witness replay on every run)", "z3 4.8.12"]

def H(fn, pkg=None, **params):
    d = {"fn": fn}
    if pkg: d["pkg"] = pkg
    if params: d["params"] = params
    return d

# ---------------- C29 ----------------
C["C29"] = {
 "pkgs": ["./packets"],
 "technique": "bounded symbolic execution of go/ssa (own engine) + SMT (z3): value->bytes over the whole 28-bit range as one symbolic value; bytes->value for every byte string up to N bytes",
 "quick": {"harnesses": [H("VerifC29Encode"), H("VerifC29Decode", N=7)], "budget_s": 120, "witnesses": 12,
   "bounds": "encode: v symbolic in 0..268435455 (whole range, no enumeration), loop unrolled by execution (<=4 iterations; step budget acts as unwinding assertion); decode: every byte string of length 0..7 followed by EOF"},
 "thorough": {"harnesses": [H("VerifC29Encode"), H("VerifC29Decode", N=10)], "budget_s": 900, "witnesses": 48,
   "bounds": "as quick, decode input length 0..10"},
 "outside_bounds": ["readers that fail mid-stream with errors other than EOF", "decode inputs longer than the stated length (the decoder never looks past the 4th byte, shown by the consumed-le4 assertion)"],
 "stubs": ["none: bytes.Buffer runs from its real SSA; bytes.Equal is a term-level intrinsic"],
 "trusted_base": ENGINE_TB + ["harness oracle: minimal-length table of MQTT 1.5.5"],
}

# ---------------- C27 ----------------
types = ["Connect","Connack","Publish","Puback","Pubrec","Pubrel","Pubcomp","Subscribe","Suback","Unsubscribe","Unsuback","Disconnect","Auth"]
def c27(n5, n4, n3):
    hs = []
    for t in types:
        hs.append(H("VerifC27"+t, N=n5, VER=5))
        hs.append(H("VerifC27"+t, N=n4, VER=4))
        hs.append(H("VerifC27"+t, N=n3, VER=3))
    hs.append(H("VerifC27Primitives", N=6))
    if n5 <= 8:
        hs.append(H("VerifC27LongProps", HEAD=4, TAIL=2, FILL=252, FILLN=3))
    else:
        hs.append(H("VerifC27LongProps", HEAD=5, TAIL=3, FILL=250, FILLN=7))
    return hs
C["C27"] = {
 "pkgs": ["./packets"],
 "technique": "bounded symbolic execution of all 13 real decoders (go/ssa) on an unconstrained symbolic buffer; every bounds check is an SMT query; panic = counterexample, replayed natively",
 "quick": {"harnesses": c27(8, 9, 8), "budget_s": 400, "witnesses": 4,
   "bounds": "every byte string of length 0..8 (v5), 0..9 (v4), 0..8 (v3) as the body of each of the 13 packet types; PUBLISH with symbolic QoS 0..2; FixedHeader.Remaining = len(buf); plus property sections of 258..263 bytes (4 symbolic head bytes, 252..255 filler bytes, 2 symbolic tail bytes) that must be decoded or rejected within 200k interpreter steps"},
 "thorough": {"harnesses": c27(10, 12, 10), "budget_s": 3000, "witnesses": 8,
   "bounds": "every byte string of length 0..10 (v5), 0..12 (v4), 0..10 (v3) for each of the 13 packet types; property sections of 258..268 bytes (5 symbolic head bytes, 250..257 filler bytes, 3 symbolic tail bytes)"},
 "outside_bounds": ["buffers longer than the stated length (the same code runs with larger offsets: stated, not proven)", "FixedHeader.Remaining different from len(buf) (ReadPacket always passes a buffer of exactly Remaining bytes)"],
 "stubs": ["utf8.Valid: exact term-level encoding of UTF-8 validity (no forking)", "bytes.Buffer: real SSA"],
 "trusted_base": ENGINE_TB,
}

# ---------------- C42 ----------------
def c42(thorough):
    hs = [H("VerifC42Puback"), H("VerifC42Pubrec"), H("VerifC42Pubrel"), H("VerifC42Pubcomp"), H("VerifC42AckV4"),
          H("VerifC42Disconnect"), H("VerifC42Auth"),
          H("VerifC42Subscribe", VER=5, F=2), H("VerifC42Subscribe", VER=4, F=2),
          H("VerifC42Unsubscribe", VER=5), H("VerifC42Unsubscribe", VER=4),
          H("VerifC42Publish", VER=5, PROPS=6 if thorough else 4), H("VerifC42Publish", VER=4),
          H("VerifC42Connect", VER=5), H("VerifC42Connect", VER=4)]
    return hs
C["C42"] = {
 "pkgs": ["./packets"],
 "technique": "differential symbolic execution: reference encoder written from the MQTT spec (intended fields symbolic, encoding choices as decisions) vs the real decoders; every equality is an SMT query",
 "quick": {"harnesses": c42(False), "budget_s": 300, "witnesses": 6,
   "bounds": "acks: 16-bit id, 8-bit reason, forms rl=2/3/full, <=2 properties in both orders, strings <=2 bytes; DISCONNECT/AUTH: forms rl=0/1/2/full, <=3 properties in all 6 orders; SUBSCRIBE: 1-2 filters of 1-2 bytes, all option bits, subscription identifier over the whole 28-bit range (4 length classes), 2 property orders; PUBLISH: QoS 0-2, <=3 of 4 properties in every order; CONNECT (protocol 4/5): every combination of clean start, will (QoS, retain), user name and password presence (password without user name for MQTT 5), 16-bit keepalive, two connect properties in both orders"},
 "thorough": {"harnesses": c42(True), "budget_s": 1800, "witnesses": 16,
   "bounds": "as quick; PUBLISH chooses <=3 of 6 properties in every order"},
 "outside_bounds": ["longer strings / more than 3 simultaneous properties / repeated user properties beyond 1", "the behavioural clause (DISCONNECT 0x04 publishes the will) is decided at handler level in C16"],
 "stubs": ["utf8.Valid: exact term-level encoding"],
 "trusted_base": ENGINE_TB + ["reference encoder harness/packets/ref.go (50 lines, from MQTT 5 sections 2.2.2, 3.4-3.7, 3.8, 3.10, 3.14, 3.15)"],
}

# ---------------- C26 ----------------
alltypes = types + ["Pingreq", "Pingresp"]
def c26(thorough):
    hs = []
    for t in alltypes:
        if t in ("Publish", "Connect", "Connack"):
            G = 2 if thorough else 3
            if t == "Connect" and not thorough: G = 4
            for g in range(G):
                hs.append(H("VerifC26"+t, VER=5, G=G, GRP=g, L=1))
        else:
            hs.append(H("VerifC26"+t, VER=5, L=2 if thorough else 1))
        hs.append(H("VerifC26"+t, VER=4, L=2 if thorough else 1))
    hs.append(H("VerifC26Connect", VER=3, L=1))
    hs.append(H("VerifC26Publish", VER=3, L=1))
    for t in ["Connect","Connack","Publish","Puback","Pubrel","Subscribe","Suback","Unsubscribe","Unsuback","Disconnect","Auth"]:
        hs.append(H("VerifC26Re"+t, VER=5, N=8 if thorough else 6))
        hs.append(H("VerifC26Re"+t, VER=4, N=9 if thorough else 6))
    return hs
C["C26"] = {
 "pkgs": ["./packets"],
 "technique": "bounded symbolic execution of all 15 real Encode/Decode pairs: symbolic packet -> Encode -> FixedHeader.Decode + DecodeLength -> Decode -> field-wise equivalence as SMT queries; and accepted byte string -> Encode -> Decode",
 "quick": {"harnesses": c26(False), "budget_s": 600, "witnesses": 3,
   "bounds": "direction 1: every integer field full width, flags/QoS symbolic, strings and binaries 0..1(+1) bytes over {a,b,/} (+ wildcards in filters), <=2 filters, <=1 user property, each optional property toggled; for PUBLISH/CONNECT/CONNACK the optional properties are toggled in 3-4 disjoint groups (G), others absent; direction 2: every byte string of length 0..6 per type (v5, v4)"},
 "thorough": {"harnesses": c26(True), "budget_s": 3000, "witnesses": 6,
   "bounds": "as quick with strings up to 2 bytes, 2 property groups, direction 2 up to 8 (v5) / 9 (v4) bytes"},
 "outside_bounds": ["strings longer than the bound, remaining length > 127 (the varint itself is C29's over the whole range)", "non-ASCII text (UTF-8 validity is exercised on the decode side in C27)", "simultaneous presence of optional properties from different groups (quick tier)", "will properties in CONNECT (thorough only)"],
 "stubs": ["sync.Pool (mempool): LIFO reuse model; Reset() is the real bytes.Buffer code"],
 "assumptions": ["well-formedness assumed only as documented: non-zero packet id where required, topic alias != 0, subscription identifier != 0, Maximum QoS in {0,1}, DUP only with QoS>0; Mods.AllowResponseInfo=true so nothing is suppressed"],
 "trusted_base": ENGINE_TB + ["equivalence relation vPacketEq/vPropsEq in harness/packets/c26.go (omitted optional property = its specified default)"],
}

# ---------------- C30 ----------------
C["C30"] = {
 "pkgs": ["."],
 "technique": "differential symbolic execution of IsValidFilter / processSubscribe against a reference validity predicate written from the statement; every string over the alphabet up to N bytes",
 "quick": {"harnesses": [H("VerifC30Filter", N=5), H("VerifC30Share", N=4), H("VerifC30Topic", N=5)], "budget_s": 200, "witnesses": 8,
   "bounds": "filters: every string of 0..5 bytes over {/ + # $ a s r h e}; share filters: '$share/' + every string of 0..4 bytes over {/ + # a g}; publish topics: every string of 0..5 bytes over {/ + # $ S Y a}"},
 "thorough": {"harnesses": [H("VerifC30Filter", N=8), H("VerifC30Share", N=7), H("VerifC30Topic", N=8)], "budget_s": 1500, "witnesses": 24,
   "bounds": "as quick with 0..8, 0..7, 0..8 bytes"},
 "outside_bounds": ["upper/lower-case variants of $share and $SYS (the code folds case, the statement is silent)", "bytes outside the alphabet (they behave like 'a' in the code paths concerned)", "longer strings"],
 "stubs": ["strings.IndexRune/ContainsRune/ContainsAny/EqualFold: term-level intrinsics (ASCII)"],
 "trusted_base": ENGINE_TB + ["reference predicate refValidFilter/refValidTopic in harness/root/ref.go"],
}

# ---------------- C01 ----------------
C["C01"] = {
 "pkgs": ["."],
 "technique": "differential symbolic execution of the real topic trie (Subscribe/InlineSubscribe/Subscribers) against a level-wise reference matcher; filter and topic bytes symbolic",
 "quick": {"harnesses": [H("VerifC01Client", F=4, T=3), H("VerifC01Shared", F=3, T=3), H("VerifC01Inline", F=3, T=3), H("VerifC01Client", F=3, T=3, EXTRA=1), H("VerifC01Two", F=2, T=3), H("VerifC01History", STEPS=3)], "budget_s": 300, "witnesses": 8,
   "bounds": "one subscription (client / $share/g/ / inline) with every valid filter of 1..4 (client) or 1..3 bytes over {/ + # $ a b} against every topic of 1..3 bytes over {/ $ a b}; two overlapping subscriptions of one client with filters of 1..2 bytes"},
 "thorough": {"harnesses": [H("VerifC01Client", F=6, T=5), H("VerifC01Shared", F=5, T=4), H("VerifC01Inline", F=5, T=4), H("VerifC01Two", F=3, T=3), H("VerifC01History", STEPS=3)], "budget_s": 3000, "witnesses": 24,
   "bounds": "filters up to 6 bytes, topics up to 5 bytes (3 levels incl. empty levels); two subscriptions with filters up to 3 bytes"},
 "outside_bounds": ["more than two subscriptions, deeper tries", "filters are assumed valid by the reference predicate (invalid filters are C30's)"],
 "stubs": ["sync.RWMutex: lock tracker (never blocks in a single goroutine)"],
 "trusted_base": ENGINE_TB + ["reference matcher refMatch in harness/root/ref.go (30 lines, MQTT 4.7)"],
}

# ---------------- C02 ----------------
C["C02"] = {
 "pkgs": ["."],
 "technique": "differential symbolic execution of RetainMessage/Messages against a map model filtered by the reference matcher",
 "quick": {"harnesses": [H("VerifC02Messages", F=3, T=2, H=2), H("VerifC02Messages", F=2, T=2, H=2, SUBS=1)], "budget_s": 300, "witnesses": 8,
   "bounds": "history of 2 retain/clear operations on topics of 1..2 bytes over {/ $ a b}, then every valid filter of 1..3 bytes over {/ + # $ a b}; every iteration order of maps with <= 3 entries"},
 "thorough": {"harnesses": [H("VerifC02Messages", F=4, T=3, H=3), H("VerifC02Messages", F=3, T=2, H=3, SUBS=1)], "budget_s": 3000, "witnesses": 16,
   "bounds": "3 operations, topics up to 3 bytes, filters up to 4 bytes"},
 "outside_bounds": ["more than 2 distinct retained topics", "longer histories"],
 "stubs": ["sync.RWMutex: lock tracker"],
 "trusted_base": ENGINE_TB + ["refMatch; last-writer-wins map model in the harness"],
}

SRV_STUBS = ["net.Conn: scripted connection (writes recorded, reads served from a script, Close/SetDeadline recorded)", "time.Now: one symbolic second per path (the clock does not advance inside a harness)", "log/slog: no-ops", "sync.Mutex/RWMutex: lock tracker; sync/atomic: plain loads/stores", "sync.Pool: LIFO reuse", "context.WithCancel: flag + closed channel", "xid: fresh concrete ids", "WriteLoop replaced by the harness draining the outbound channel through the real WritePacket"]
SRV_TB = ENGINE_TB + ["strict reference wire decoder harness/root/wire.go (written from the MQTT 3.1.1/5.0 specs)"]

# ---------------- C07 ----------------
C["C07"] = {
 "pkgs": ["."],
 "technique": "bounded symbolic execution of the real processPacket and everything below it for one solver-chosen request from a symbolic session pre-state; transcript parsed by a reference decoder; assertions as SMT queries",
 "quick": {"harnesses": [H("VerifC07Request", VER=5), H("VerifC07Request", VER=4), H("VerifC07Request", VER=3)], "budget_s": 300, "witnesses": 8,
   "bounds": "one request per run: PUBLISH q1/q2 (topic in {a, $SYS/x, b/c}), PUBREL, SUBSCRIBE/UNSUBSCRIBE with 1-2 filters from fixed sets incl. invalid, shared and unsubscribed ones, PINGREQ; 16-bit packet id symbolic; ACL verdict for topic a symbolic; inbound QoS 2 state present or not"},
 "thorough": {"harnesses": [H("VerifC07Request", VER=5), H("VerifC07Request", VER=4), H("VerifC07Request", VER=3)], "budget_s": 900, "witnesses": 24, "bounds": "as quick"},
 "outside_bounds": ["sequences of requests (the step is from a symbolic pre-state, one-step)", "requests re-using an id that is in use by another exchange (not well-formed)", "hooks that reject packets"],
 "stubs": SRV_STUBS, "trusted_base": SRV_TB,
}
# ---------------- C37 ----------------
C["C37"] = {
 "pkgs": ["."],
 "technique": "symbolic execution of refreshDeadline/Read with the keepalive as a 16-bit solver variable; deadline arithmetic (x 1e9, x3/2) decided bit-precisely on 64-bit vectors",
 "quick": {"harnesses": [H("VerifC37Deadline"), H("VerifC37Rearm"), H("VerifC37Partial")], "budget_s": 120, "witnesses": 6,
   "bounds": "keepalive: all 65536 values symbolically; re-arming: 0..2 packets read; a PINGREQ arriving 1..5 s after the previous read, alone or followed by the first byte of the next packet, keepalive 10 or 60: the deadline in force while waiting lies >= 1.5 K after that arrival"},
 "thorough": {"harnesses": [H("VerifC37Deadline"), H("VerifC37Rearm"), H("VerifC37Partial")], "budget_s": 300, "witnesses": 12, "bounds": "as quick"},
 "outside_bounds": ["that the runtime's net.Conn honours SetDeadline", "sub-second rounding"],
 "stubs": SRV_STUBS + ["time.Time: (seconds, extra nanoseconds) pair; Add/Sub exact"], "trusted_base": SRV_TB,
}
# ---------------- C10 ----------------
C["C10"] = {
 "pkgs": ["."],
 "technique": "one-step inductive symbolic execution: NextPacketID from an arbitrary in-flight state; handlers with a symbolic client packet id against a broker-created outbound record",
 "quick": {"harnesses": [H("VerifC10Alloc", M=3), H("VerifC10AllocVsInbound", M=3), H("VerifC10Cross", VER=5), H("VerifC10Cross", VER=4), H("VerifC10Reverse"), H("VerifC10Drop")], "budget_s": 200, "witnesses": 8,
   "bounds": "allocation: maximumPacketID = 3, every subset of ids in use, every cursor; cross: one outbound QoS 1/2 record, client PUBLISH/PUBREL/SUBSCRIBE/UNSUBSCRIBE with any 16-bit id; reverse: PUBACK/PUBREC/PUBCOMP against an open inbound QoS 2 exchange; drop: a message dropped for a full outbound queue, the publisher's own packet id any 16-bit value, two other messages unacknowledged"},
 "thorough": {"harnesses": [H("VerifC10Alloc", M=7), H("VerifC10AllocVsInbound", M=5), H("VerifC10Cross", VER=5), H("VerifC10Cross", VER=4), H("VerifC10Reverse"), H("VerifC10Drop")], "budget_s": 600, "witnesses": 16, "bounds": "as quick with maximumPacketID = 7"},
 "outside_bounds": ["the real identifier limit 65535 (differs from M only in the constant)", "more than one outbound record in the cross-contamination step"],
 "stubs": SRV_STUBS, "trusted_base": SRV_TB,
}
# ---------------- C11 ----------------
C["C11"] = {
 "pkgs": ["."],
 "technique": "bounded symbolic execution of solver-chosen histories through the real handlers; the oracle counts unacknowledged messages on the wire (reference decoder), independent of the broker's quota counters",
 "quick": {"harnesses": [H("VerifC11Flow", STEPS=3), H("VerifC11Flow", STEPS=3, SUBQOS0=1)], "budget_s": 300, "witnesses": 8, "perm_limit": 1,
   "bounds": "client Receive Maximum 1..2, server Receive Maximum 1..2, every history of 3 steps among {broker delivers q1/q2, client acknowledges, client publishes q0/q1/q2 within the limit, client PUBREL, spurious PUBCOMP}; the same with a QoS 0 subscription (deliveries downgraded to QoS 0 must use no quota)"},
 "thorough": {"harnesses": [H("VerifC11Flow", STEPS=5), H("VerifC11Flow", STEPS=4, SUBQOS0=1)], "budget_s": 3000, "witnesses": 16, "perm_limit": 1, "bounds": "as quick with histories of 5 steps"},
 "outside_bounds": ["longer histories, Receive Maximum > 2", "map iteration order (perm_limit 1: the harness's own model maps are iterated in insertion order)"],
 "stubs": SRV_STUBS, "trusted_base": SRV_TB,
}
# ---------------- C08 ----------------
C["C08"] = {
 "pkgs": ["."],
 "technique": "bounded symbolic execution of processPublish/processPubrel for 1..3 transmissions of the same QoS 2 PUBLISH, symbolic packet id; subscriber and publisher transcripts parsed by the reference decoder",
 "quick": {"harnesses": [H("VerifC08Once", VER=5, RETX=2), H("VerifC08Once", VER=4, RETX=2), H("VerifC08Reconnect", VER=5, RETX=1), H("VerifC08Reconnect", VER=4, RETX=1), H("VerifC08Once", VER=5, RETX=2, OWN=1)], "budget_s": 200, "witnesses": 6,
   "bounds": "1..3 transmissions before PUBREL, any 16-bit id, one subscriber; also with the publisher subscribed to its own topic at QoS 1 (broker-allocated ids towards the same client)"},
 "thorough": {"harnesses": [H("VerifC08Once", VER=5, RETX=4), H("VerifC08Once", VER=4, RETX=4), H("VerifC08Reconnect", VER=5, RETX=3), H("VerifC08Reconnect", VER=4, RETX=3), H("VerifC08Once", VER=5, RETX=3, OWN=1)], "budget_s": 600, "witnesses": 12, "bounds": "1..5 transmissions"},
 "outside_bounds": ["more than one reconnect", "several QoS 2 exchanges interleaved"],
 "stubs": SRV_STUBS, "trusted_base": SRV_TB,
}

# ---------------- C04 ----------------
C["C04"] = {
 "pkgs": ["."],
 "technique": "bounded symbolic execution of the real SUBSCRIBE handler, trie merge and publishToClient with symbolic QoS x3, identifiers, RAP and retain; wire output parsed by the reference decoder",
 "quick": {"harnesses": [H("VerifC04Deliver", VER=5), H("VerifC04Deliver", VER=4), H("VerifC04Resubscribe", PERM=1)], "budget_s": 300, "witnesses": 8, "perm_limit": 2,
   "bounds": "server maximum QoS 0..2, publish QoS 0..2, two overlapping subscriptions (a/b, a/+) each present or not with QoS 0..2, identifier in {none,1,2}, Retain As Published, retain flag; all iteration orders of maps with <= 2 entries"},
 "thorough": {"harnesses": [H("VerifC04Deliver", VER=5), H("VerifC04Deliver", VER=4), H("VerifC04Deliver", VER=3), H("VerifC04Resubscribe", PERM=1)], "budget_s": 900, "witnesses": 16, "perm_limit": 3, "bounds": "as quick; map orders up to 3 entries"},
 "outside_bounds": ["more than two overlapping subscriptions", "RAP disagreement between matching subscriptions (the statement speaks of 'the matching subscription'; asserted only when they agree)", "retained-delivery identifiers are asserted in C05's harness"],
 "stubs": SRV_STUBS, "trusted_base": SRV_TB,
}
# ---------------- C05 ----------------
C["C05"] = {
 "pkgs": ["."],
 "technique": "bounded symbolic execution of processPublish->retainMessage and processSubscribe->publishRetainedToClient over solver-chosen publish histories, against a last-writer-wins model",
 "quick": {"harnesses": [H("VerifC05Retained", H=2), H("VerifC05Retained", H=2, NEST=1), H("VerifC16Will", PERM=1)], "budget_s": 300, "witnesses": 8, "perm_limit": 3,
   "bounds": "2 publishes to two topics (retain flag, empty/non-empty payload symbolic), RetainAvailable 0/1, then SUBSCRIBE a/+ with Retain Handling 0..2, shared or not, first-time or repeated, with or without subscription identifier; retained wills (C16's scenarios: the store holds a will only once it has been published)"},
 "thorough": {"harnesses": [H("VerifC05Retained", H=4), H("VerifC05Retained", H=3, NEST=1), H("VerifC16Will", PERM=1)], "budget_s": 1800, "witnesses": 16, "perm_limit": 3, "bounds": "as quick with 4 publishes"},
 "outside_bounds": ["more than two retained topics", "message expiry (C25)"],
 "stubs": SRV_STUBS, "trusted_base": SRV_TB,
}
# ---------------- C06 ----------------
C["C06"] = {
 "pkgs": ["."],
 "technique": "bounded symbolic execution of Subscribers/SelectShared/MergeSharedSelected/publishToSubscribers with every iteration order of the (randomised) Go maps as an engine decision",
 "quick": {"harnesses": [H("VerifC06Groups", N=2)], "budget_s": 300, "witnesses": 8, "perm_limit": 3,
   "bounds": "1..2 shared subscriptions (client in {c1,c2,c3}, group in {g,h}, filter in {a/b,a/+,a/#}) plus an optional non-shared subscription of c1; topic a/b; every order of maps with <= 3 entries"},
 "thorough": {"harnesses": [H("VerifC06Groups", N=3, PERM=2)], "budget_s": 5400, "witnesses": 16, "perm_limit": 3, "bounds": "as quick with 1..3 shared subscriptions; every order of maps with <= 2 entries (3 subscriptions with every order of 3-entry maps did not finish within 2400 s on a loaded machine and is not claimed)"},
 "outside_bounds": ["OnSelectSubscribers hooks (default selection only)", "more than 3 members"],
 "stubs": SRV_STUBS, "trusted_base": SRV_TB,
}
# ---------------- C12 ----------------
C["C12"] = {
 "pkgs": ["."],
 "technique": "bounded symbolic execution of publishToClient deferral, the processPacket deferred-send tail, Inflight.GetAll/NextImmediate and ResendInflightMessages; order read off the wire; map iteration orders as decisions",
 "quick": {"harnesses": [H("VerifC12Order", MSGS=3), H("VerifC12Order", MSGS=3, WRAP=1), H("VerifC12Resend", MSGS=3), H("VerifC12Resend", MSGS=3, WRAP=1), H("VerifC12ReconnectHeld", MSGS=3)], "budget_s": 300, "witnesses": 8, "perm_limit": 3,
   "bounds": "3 QoS 1 messages from one publisher on one topic, client Receive Maximum 1..2, prompt acknowledgements; resend after one reconnect; packet-id cursor near wrap-around (maximum id 3-4); every order of maps with <= 3 entries"},
 "thorough": {"harnesses": [H("VerifC12Order", MSGS=4), H("VerifC12Order", MSGS=3, WRAP=1), H("VerifC12Resend", MSGS=3), H("VerifC12Resend", MSGS=3, WRAP=1), H("VerifC12ReconnectHeld", MSGS=4)], "budget_s": 1800, "witnesses": 16, "perm_limit": 3, "bounds": "as quick, 4 messages for the flow-control order"},
 "outside_bounds": ["clock advancing between messages (one symbolic second per path)", "QoS 2 flows, several publishers"],
 "stubs": SRV_STUBS, "trusted_base": SRV_TB,
}

# ---------------- C09 ----------------
C["C09"] = {
 "pkgs": ["."],
 "technique": "bounded symbolic execution of delivery, acknowledgement steps, disconnect and session takeover (inheritClientSession, Inflight.Clone, ResendInflightMessages); resend transcript parsed by the reference decoder and compared with a client-side model",
 "quick": {"harnesses": [H("VerifC09Redeliver", MSGS=2, ACKS=2), H("VerifC09Redeliver", MSGS=3, ACKS=3)], "budget_s": 300, "witnesses": 8, "perm_limit": 1,
   "bounds": "2 messages with symbolic QoS 1/2, client Receive Maximum 1..2, 0..2 acknowledgement steps (PUBACK / PUBREC / PUBCOMP), one reconnect with Clean Start 0"},
 "thorough": {"harnesses": [H("VerifC09Redeliver", MSGS=3, ACKS=4)], "budget_s": 1800, "witnesses": 16, "perm_limit": 2, "bounds": "3 messages, 0..4 acknowledgement steps"},
 "outside_bounds": ["message expiry during the session (C25)", "several reconnections", "map order of the harness's own model (perm_limit 1)"],
 "stubs": SRV_STUBS, "trusted_base": SRV_TB,
}
# ---------------- C24 ----------------
C["C24"] = {
 "pkgs": ["."],
 "technique": "bounded symbolic execution of publishToClient/OutboundTopicAliases.Set with drops and deferrals as solver choices, and of processPublish/InboundTopicAliases.Set; alias bindings tracked on the wire by the reference decoder",
 "quick": {"harnesses": [H("VerifC24Outbound", MSGS=3), H("VerifC24Resend"), H("VerifC24Inbound", MSGS=2), H("VerifC24AfterResume")], "budget_s": 400, "witnesses": 8, "perm_limit": 1,
   "bounds": "outbound: client Topic Alias Maximum 0..2, Receive Maximum 1..2, outbound queue capacity 1..2, 2 messages on topics from {x,y,z} with QoS 0/1, write loop catching up or not after each; resend after reconnect with the first message acknowledged or not; inbound: broker maximum 0..2, 2 publishes with alias 0..3 and topic from {'',x,y}"},
 "thorough": {"harnesses": [H("VerifC24Outbound", MSGS=3), H("VerifC24Resend"), H("VerifC24Inbound", MSGS=3), H("VerifC24AfterResume")], "budget_s": 2400, "witnesses": 16, "perm_limit": 1, "bounds": "as quick with 3 messages"},
 "outside_bounds": ["alias maxima above 2", "longer sequences"],
 "stubs": SRV_STUBS, "trusted_base": SRV_TB,
}
# ---------------- C25 ----------------
C["C25"] = {
 "pkgs": ["."],
 "technique": "symbolic execution of minimum, processPublish expiry computation, clearExpiredRetainedMessages, clearExpiredInflights and WritePacket's interval rewrite with intervals, server maximum and clock readings as solver variables (64-bit bit-vector arithmetic)",
 "quick": {"harnesses": [H("VerifC25Minimum"), H("VerifC25Retained", VER=5), H("VerifC25Retained", VER=4), H("VerifC25Delivered"), H("VerifC25Deferred"), H("VerifC25Offline")], "budget_s": 300, "witnesses": 8, "perm_limit": 1,
   "bounds": "publisher interval and server maximum symbolic in [0, 2^20), housekeeping time symbolic up to 2^21 s after publish, one retained / one delivered / one deferred message"},
 "thorough": {"harnesses": [H("VerifC25Minimum"), H("VerifC25Retained", VER=5), H("VerifC25Retained", VER=4), H("VerifC25Retained", VER=3), H("VerifC25Delivered"), H("VerifC25Deferred"), H("VerifC25Offline")], "budget_s": 600, "witnesses": 16, "perm_limit": 1, "bounds": "as quick"},
 "outside_bounds": ["intervals >= 2^20 s (same arithmetic, 64-bit, no overflow below 2^40)", "'after a restart' is decided with the storage boundary in C20", "the clock does not advance inside WritePacket (one symbolic second per path)"],
 "stubs": SRV_STUBS, "trusted_base": SRV_TB,
}

LIVE = ["connections are live scripted net.Conn objects; each connection handler (the real EstablishConnection/attachClient with its WriteLoop goroutine) runs as an interpreted goroutine, scheduled cooperatively: a goroutine runs until it blocks (conn read, channel, lock, WaitGroup) and every choice among runnable goroutines is an engine decision explored exhaustively"]
# ---------------- C13 ----------------
C["C13"] = {
 "pkgs": [".", "./listeners"],
 "technique": "bounded symbolic execution of the real connection handler (attachClient end to end, WriteLoop goroutine included) on a scripted connection whose first packet is a CONNECT with symbolic flags/version/name or a non-CONNECT; transcript parsed by the reference decoder",
 "quick": {"harnesses": [H("VerifC13Attach"), H("VerifC36Shutdown", STAGE=0, PREEMPT=0, SCHED=1)], "budget_s": 400, "witnesses": 8, "perm_limit": 1,
   "bounds": "0..2 authentication hooks with symbolic verdicts; first packet: CONNECT (protocol name in {MQTT, MQIsdp, other}, version 3..6, clean, reserved bit, will flag/QoS 0..3/retain/payload present or not, username, password present/empty, client id empty or not), PINGREQ, or an arbitrary 2-byte header"},
 "thorough": {"harnesses": [H("VerifC13Attach"), H("VerifC36Shutdown", STAGE=0, PREEMPT=1, SCHED=1)], "budget_s": 900, "witnesses": 24, "perm_limit": 1, "bounds": "as quick"},
 "outside_bounds": ["a concurrent publisher racing the resumed session's CONNACK (schedule half of the statement: 'nothing else reaches the client before it'); only the sequential order is decided", "CONNECT properties other than none"],
 "stubs": SRV_STUBS + LIVE, "trusted_base": SRV_TB + ["reference CONNECT validity predicate in the harness (MQTT 3.1.2)"],
}
# ---------------- C14 ----------------
C["C14"] = {
 "pkgs": ["."],
 "technique": "bounded symbolic execution of two real connection handlers (attachClient) for the same client id on live scripted connections, goroutine choices explored exhaustively; both transcripts parsed by the reference decoder",
 "quick": {"harnesses": [H("VerifC14Takeover")], "budget_s": 300, "witnesses": 8, "perm_limit": 1,
   "bounds": "previous session absent / connected / disconnected, protocol 4/5 and Clean flag of both connections symbolic, one subscription and one unacknowledged QoS 1 message in the old session, one later publish"},
 "thorough": {"harnesses": [H("VerifC14Takeover")], "budget_s": 900, "witnesses": 24, "perm_limit": 1, "preempt": 1, "bounds": "as quick plus one pre-emption at a synchronisation operation"},
 "outside_bounds": ["storage-restored sessions ('restored later' is C20/C21's)", "pre-emption inside the takeover beyond the stated bound; data-race freedom is assumed (C33 is not decided)"],
 "stubs": SRV_STUBS + LIVE, "trusted_base": SRV_TB,
}
# ---------------- C15 ----------------
C["C15"] = {
 "pkgs": ["."],
 "technique": "symbolic execution of the connection handler tail, clearExpiredClients, processDisconnect with intervals, server maximum and housekeeping times as solver variables",
 "quick": {"harnesses": [H("VerifC15Expiry"), H("VerifC15DisconnectInterval"), H("VerifC15Generations", PERM=1)], "budget_s": 300, "witnesses": 8, "perm_limit": 1,
   "bounds": "protocol 4/5, Clean, session expiry interval present or not and symbolic < 2^20, server maximum symbolic < 2^20, housekeeping time symbolic up to 2^21 s later; one subscription; DISCONNECT with a symbolic new interval"},
 "thorough": {"harnesses": [H("VerifC15Expiry"), H("VerifC15DisconnectInterval"), H("VerifC15Generations", PERM=1)], "budget_s": 600, "witnesses": 16, "perm_limit": 1, "bounds": "as quick"},
 "outside_bounds": ["the boundary second dt == disconnect+interval+1 is tolerated both ways ('once elapsed')", "intervals >= 2^20"],
 "stubs": SRV_STUBS + LIVE, "trusted_base": SRV_TB,
}
# ---------------- C16 ----------------
C["C16"] = {
 "pkgs": ["."],
 "technique": "bounded symbolic execution of the real connection handlers, sendLWT, sendDelayedLWT and processDisconnect over solver-chosen ways of ending the connection, will delay and housekeeping times symbolic; goroutine choices (old connection's teardown vs the new connection) explored",
 "quick": {"harnesses": [H("VerifC16Will"), H("VerifC16Will", NOSEI=1), H("VerifC16TakeoverRace", PREEMPT=1)], "budget_s": 400, "witnesses": 8, "perm_limit": 1,
   "bounds": "will QoS 0/1, retain, delay 0 or symbolic 1..1000 s, protocol 4/5; end of connection in {DISCONNECT, DISCONNECT 0x04, connection lost, second CONNECT, takeover with Clean Start 0, takeover with Clean Start 1}; two housekeeping ticks at symbolic times with an optional resuming connection between them"},
 "thorough": {"harnesses": [H("VerifC16Will", PREEMPT=1), H("VerifC16Will", NOSEI=1), H("VerifC16TakeoverRace", PREEMPT=2)], "budget_s": 3000, "witnesses": 24, "perm_limit": 1, "bounds": "as quick plus one pre-emption at a synchronisation operation"},
 "outside_bounds": ["session expiry ending the session before the delay (the delay is capped to the session expiry by ParseConnect; decided arithmetically there)", "interleavings beyond cooperative scheduling + the stated pre-emption bound"],
 "stubs": SRV_STUBS + LIVE, "trusted_base": SRV_TB,
}

# ---------------- C03 ----------------
C["C03"] = {
 "pkgs": ["."],
 "technique": "bounded symbolic execution of solver-chosen histories through the real SUBSCRIBE/UNSUBSCRIBE/PUBLISH handlers, trie and publishToClient against a set model with reference matching, ACL table and No Local",
 "quick": {"harnesses": [H("VerifC03History", STEPS=3), H("VerifC03Pruning"), H("VerifC03Resubscribe", PERM=1)], "budget_s": 400, "witnesses": 8, "perm_limit": 2,
   "bounds": "2 clients (publisher A v5, subscriber B v4/v5), every history of 3 steps among {subscribe(client, filter in {a/b, a/+, #, x}, No Local), unsubscribe, publish a/b with payload + content type + response topic + correlation data + user property, B disconnects}; read ACL verdict for (B, a/b) symbolic"},
 "thorough": {"harnesses": [H("VerifC03History", STEPS=4), H("VerifC03Pruning"), H("VerifC03Resubscribe", PERM=1)], "budget_s": 3000, "witnesses": 16, "perm_limit": 2, "bounds": "as quick with histories of 4 steps"},
 "outside_bounds": ["bytes on the wire after a concurrent WriteLoop (the harness drains the queue through the real WritePacket)", "true concurrency between publishers", "longer histories, more clients", "the reported-drop paths (queue full etc.) are C34's"],
 "stubs": SRV_STUBS, "trusted_base": SRV_TB + ["set model of subscriptions in the harness"],
}
# ---------------- C17 ----------------
C["C17"] = {
 "pkgs": ["."],
 "technique": "bounded symbolic execution of every route a message can take (SUBSCRIBE, PUBLISH, delivery, retained replay, will via the real connection handler) with the permission relation as solver booleans served by a harness hook",
 "quick": {"harnesses": [H("VerifC17Routes", VER=5), H("VerifC17Routes", VER=4), H("VerifC17Will")], "budget_s": 300, "witnesses": 8, "perm_limit": 1,
   "bounds": "write permission of the publisher and read permission of the subscriber on one topic symbolic, ObscureNotAuthorized symbolic, publish QoS 0/1, retain symbolic, subscription existing before the permission was withdrawn or not; will topic in {w, w/+, #, $SYS/w}, will retain symbolic, will write permission symbolic, protocol 4/5"},
 "thorough": {"harnesses": [H("VerifC17Routes", VER=5), H("VerifC17Routes", VER=4), H("VerifC17Routes", VER=3), H("VerifC17Will")], "budget_s": 600, "witnesses": 16, "perm_limit": 1, "bounds": "as quick"},
 "outside_bounds": ["more than one topic / two clients in the permission relation", "inline publishes (exempt by design)"],
 "stubs": SRV_STUBS + LIVE, "trusted_base": SRV_TB,
}
# ---------------- C19 ----------------
C["C19"] = {
 "pkgs": ["."],
 "technique": "bounded symbolic execution of the Hooks dispatchers and processPublish/ReadPacket with 1-3 harness hooks whose behaviour per call is chosen by the solver",
 "quick": {"harnesses": [H("VerifC19Publish", VER=5), H("VerifC19Publish", VER=4), H("VerifC19Or"), H("VerifC19Read")], "budget_s": 300, "witnesses": 8, "perm_limit": 1,
   "bounds": "1..2 publish hooks each in {pass, modify, ErrRejectPacket, CodeSuccessIgnore, packets.Code error, plain error}; publish QoS 0..2, retain symbolic, protocol 4/5; 1..3 auth/ACL hooks with symbolic verdicts; one read hook rejecting or not"},
 "thorough": {"harnesses": [H("VerifC19Publish", VER=5), H("VerifC19Publish", VER=4), H("VerifC19Publish", VER=3), H("VerifC19Or"), H("VerifC19Read")], "budget_s": 600, "witnesses": 16, "perm_limit": 1, "bounds": "as quick"},
 "outside_bounds": ["more than 2 publish hooks", "OnSubscribe/OnPacketEncode chains (same dispatcher pattern; not asserted)"],
 "stubs": SRV_STUBS, "trusted_base": SRV_TB,
}
# ---------------- C23 ----------------
C["C23"] = {
 "pkgs": ["."],
 "technique": "every transcript produced by the symbolically executed connection handler and request handlers is parsed by a strict reference decoder written from the MQTT 3.1.1/5.0 specifications; well-formedness, version and size obligations are SMT queries over the symbolic bytes",
 "quick": {"harnesses": [H("VerifC13Attach", WF=1), H("VerifC14Takeover", WF=1), H("VerifC07Request", WF=1, VER=5), H("VerifC07Request", WF=1, VER=4), H("VerifC23MaxSize", PAYLOAD=24), H("VerifC23SubackV3"), H("VerifC23DisconnectV3"), H("VerifC09Redeliver", WF=1, MSGS=2, ACKS=2, RECON=1), H("VerifC23ProblemInfo")], "budget_s": 600, "witnesses": 4, "perm_limit": 1,
   "bounds": "all CONNECT variants of C13, the takeover scenarios of C14, the requests of C07; client Maximum Packet Size symbolic 1..40 with payload 0..24 bytes and optional user property; SUBSCRIBE/UNSUBSCRIBE failure paths for protocol 3/4/5; broker-initiated disconnects"},
 "thorough": {"harnesses": [H("VerifC13Attach", WF=1), H("VerifC14Takeover", WF=1), H("VerifC16Will"), H("VerifC07Request", WF=1, VER=5), H("VerifC07Request", WF=1, VER=4), H("VerifC07Request", WF=1, VER=3), H("VerifC23MaxSize", PAYLOAD=40), H("VerifC23SubackV3"), H("VerifC23DisconnectV3"), H("VerifC09Redeliver", WF=1, MSGS=2, ACKS=2, RECON=2), H("VerifC23ProblemInfo")], "budget_s": 1800, "witnesses": 8, "perm_limit": 1, "bounds": "as quick, payload up to 40 bytes"},
 "outside_bounds": ["interleaving of bytes from concurrent writers (WritePacket serialises under the client lock; true parallelism is not modelled)", "packets the encoded handlers cannot emit", "problem/response-information suppression (asserted by the codec check C26 through Mods)"],
 "stubs": SRV_STUBS + LIVE, "trusted_base": SRV_TB,
}

# ---------------- C18 ----------------
C["C18"] = {
 "pkgs": ["./hooks/auth"],
 "technique": "differential symbolic execution of MatchTopic against a level-wise reference; ACLOk/AuthOk executed twice per path with every map iteration order as an engine decision (determinism) and against a first-match reference (rule order)",
 "quick": {"harnesses": [H("VerifC18Match", F=4, T=4), H("VerifC18Deterministic", RULES=1), H("VerifC18RuleOrder")], "budget_s": 400, "witnesses": 8, "perm_limit": 3,
   "bounds": "rule filters: every valid string of 1..4 bytes over {/ + # a b}; topics 1..4 bytes over {/ a b}; determinism: a user with 2 ACL entries (filters from {a/b, a/+, x}, access 0..3) and 1 global rule with 2 filters, topic a/b, read/write symbolic, every order of maps with <= 3 entries; rule order: 2 auth rules + optional user entry; 2 ACL rules"},
 "thorough": {"harnesses": [H("VerifC18Match", F=6, T=5), H("VerifC18Deterministic", RULES=2), H("VerifC18RuleOrder")], "budget_s": 3000, "witnesses": 16, "perm_limit": 3, "bounds": "filters up to 6 bytes, topics up to 5; 2 global rules"},
 "outside_bounds": ["RString.Matches glob semantics for client/user/remote (only exact/empty patterns used)", "ledgers with more rules"],
 "stubs": ["strings.Split/Join/Index/Compare: term-level intrinsics"],
 "trusted_base": ENGINE_TB + ["reference matcher rMatch in harness/hooks_auth/c18.go"],
}

# ---------------- C40 ----------------
C["C40"] = {
 "pkgs": ["."],
 "technique": "bounded symbolic execution of Server.Publish/Subscribe/Unsubscribe (inline client API), InlineSubscribe/InlineUnsubscribe and the inline gathering in scanSubscribers over solver-chosen histories, against a set model of (identifier, filter) pairs and the reference matcher",
 "quick": {"harnesses": [H("VerifC40Inline", STEPS=2), H("VerifC40Prune")], "budget_s": 400, "witnesses": 8, "perm_limit": 2,
   "bounds": "every history of 2 steps among {inline subscribe (id 1..2, filter in {a/b, a/#, a/+, #}), inline unsubscribe, Publish(topic in {a, a/b}, QoS 0..2, retain), another client's subscribe/unsubscribe of one of the filters, retained clear}; plus: one inline subscription x {same-filter, deeper-filter, retained set+clear, shared subscription} come-and-go by others, then a publish, one regular client subscribed to a/# with symbolic QoS"},
 "thorough": {"harnesses": [H("VerifC40Inline", STEPS=3), H("VerifC40Prune")], "budget_s": 3000, "witnesses": 16, "perm_limit": 2, "bounds": "as quick with histories of 3 steps"},
 "outside_bounds": ["longer histories", "inline subscription handlers that publish re-entrantly"],
 "stubs": SRV_STUBS, "trusted_base": SRV_TB,
}
# ---------------- C41 ----------------
C["C41"] = {
 "pkgs": ["./mempool"],
 "technique": "bounded exploration by the same engine of every get/write/put script against an adversarial sync.Pool model (Get returns ANY pooled element or a fresh one); bytes.Buffer is the real code; the data is concrete here, so the solver only sees trivial queries: the verdict is by exhaustive path enumeration within the bound",
 "quick": {"harnesses": [H("VerifC41Pool", CAP=0, STEPS=4), H("VerifC41Pool", CAP=4, STEPS=4, W=6), H("VerifC41Global")], "budget_s": 120, "witnesses": 6, "pool_adversarial": True,
   "bounds": "every script of 4 steps among {get, write 0..6 bytes to a held buffer, put a held buffer}; uncapped pool and pool capped at 4 bytes"},
 "thorough": {"harnesses": [H("VerifC41Pool", CAP=0, STEPS=6), H("VerifC41Pool", CAP=4, STEPS=6, W=9), H("VerifC41Global")], "budget_s": 900, "witnesses": 12, "pool_adversarial": True, "bounds": "scripts of 6 steps, writes up to 9 bytes"},
 "outside_bounds": ["sync.Pool's own thread safety (trusted)", "a user that keeps using a buffer after Put (a misuse by the caller, not by the pool)"],
 "stubs": ["sync.Pool: bag; Get returns any element or New() (decision)"],
 "trusted_base": ENGINE_TB,
}

# ---------------- C28 ----------------
def c28(thorough):
    hs = [H("VerifC28Stream", N=5 if thorough else 4, VER=5), H("VerifC28Stream", N=5 if thorough else 4, VER=4), H("VerifC28MaxSize")]
    for t in range(0, 16):
        hs.append(H("VerifC28Process", TYPE=t))
    # a decoder that never returns hangs the connection's read goroutine: the long-property-section harness of C27
    hs.append(H("VerifC27LongProps", pkg="./packets", HEAD=4, TAIL=2, FILL=252, FILLN=3))
    # a panic in a decoder is raised in the connection's read goroutine and ends the process: C27's decoder harnesses
    # for the packets a client can send, protocol 5 (the version with properties)
    for t in ["Connect", "Publish", "Puback", "Pubrec", "Pubrel", "Pubcomp", "Subscribe", "Unsubscribe", "Disconnect", "Auth"]:
        hs.append(H("VerifC27" + t, pkg="./packets", N=8 if thorough else 7, VER=5))
    return hs
C["C28"] = {
 "pkgs": [".", "./packets"],
 "technique": "bounded symbolic execution of the real connection handler on an arbitrary byte stream after a valid CONNECT (every panic site is a solver query), of processPacket for arbitrary packet values, and of the size refusal arithmetic",
 "quick": {"harnesses": c28(False), "budget_s": 600, "witnesses": 3, "perm_limit": 1,
   "bounds": "stream: every byte string of 0..4 bytes after CONNECT (v4 and v5 clients, with/without will, clean or not), server MaximumPacketSize 24, a second well-behaved client connected throughout; process: for each of the 16 packet types a packet with symbolic QoS/DUP/retain/id/reason code and type-specific fields from small sets incl. invalid ones, on a session with symbolic in-flight record and exhausted or full receive quota, protocol 3/4/5; size test: MaximumPacketSize symbolic 4..200, 1- and 2-byte remaining lengths symbolic; termination: property sections of 258..263 bytes (4 symbolic head bytes, filler, 2 symbolic tail bytes) decoded or rejected within 200k steps; decoders of the ten client-to-server packet types on every body of 0..7 bytes (protocol 5)"},
 "thorough": {"harnesses": c28(True), "budget_s": 3000, "witnesses": 6, "perm_limit": 1, "bounds": "as quick with streams of 0..5 bytes"},
 "outside_bounds": ["longer streams (the decoders alone are covered to 8-12 bytes by C27)", "process-level effects (memory, goroutine leaks)", "true parallelism between the two connections (cooperative scheduling; data-race freedom is C33, not decided)"],
 "stubs": SRV_STUBS + LIVE, "trusted_base": SRV_TB,
}
# ---------------- C31 ----------------
C["C31"] = {
 "pkgs": ["."],
 "technique": "bounded exploration by the engine of operation histories on the real trie against a set/map model (refinement after every step), symbolic final queries decided by the solver, and interleavings of one mutator with one reader at every lock operation within a pre-emption bound (linearizability of the pair)",
 "quick": {"harnesses": [H("VerifC31Sequential", STEPS=2), H("VerifC31Sequential", STEPS=1, ANY=1, T=2, F=2), H("VerifC31Concurrent", PREEMPT=1, PERM=1), H("VerifC31Writers", PREEMPT=1, PERM=1)], "budget_s": 600, "witnesses": 6, "perm_limit": 2,
   "bounds": "histories of 2 operations among Subscribe/Unsubscribe/InlineSubscribe/InlineUnsubscribe/RetainMessage set/clear over 2 clients, filters {a, a/b, a/+, a/#, $share/g/a/b}, topics {a, a/b, a/b/c}; after 1 operation additionally every topic of 1..3 bytes and every valid filter of 1..3 bytes (symbolic); concurrent: one mutator goroutine vs one reader goroutine, <= 1 pre-emption at lock operations"},
 "thorough": {"harnesses": [H("VerifC31Sequential", STEPS=2), H("VerifC31Sequential", STEPS=3, NF=2, NT=2, PERM=1), H("VerifC31Sequential", STEPS=1, ANY=1, T=2, F=2), H("VerifC31Concurrent", PREEMPT=1, PERM=1), H("VerifC31Writers", PREEMPT=2, PERM=1)], "budget_s": 3600, "witnesses": 12, "perm_limit": 2, "bounds": "as quick, plus histories of 3 operations over 2 filters / 2 topics in insertion map order, and two concurrent writers with <= 2 pre-emptions (larger bounds - 3 operations over the full alphabets, any-topic queries after 2 operations, a reader against a writer with 2 pre-emptions - did not finish within an hour and a half on a loaded machine and are not registered)"},
 "outside_bounds": ["more than two goroutines", "interleavings below lock granularity (data-race freedom is assumed: C33 is not decided)", "longer histories"],
 "stubs": ["sync.RWMutex: lock tracker with blocking semantics between interpreted goroutines"],
 "trusted_base": ENGINE_TB + ["set/map model and refMatch in the harness"],
}
# ---------------- C32 ----------------
C["C32"] = {
 "pkgs": ["."],
 "technique": "lock-discipline analysis on symbolically executed paths: the engine's lock tracker records every sync.(RW)Mutex acquisition with the locks already held by that goroutine; path feasibility is the solver's; re-acquisition and opposite acquisition orders are reported",
 "quick": {"harnesses": [H("VerifC32Sweep"), H("VerifC32Handlers"), H("VerifC14Takeover"), H("VerifC16Will"), H("VerifC38Counters", STEPS=2)], "budget_s": 400, "witnesses": 3, "perm_limit": 1, "lock_check": True,
   "bounds": "one call of every method of Clients, Inflight, Subscriptions/SharedSubscriptions/InlineSubscriptions, TopicsIndex, packets.Packets, topic aliases, Client id/write/resend operations, Hooks, housekeeping and the inline API; every request type through the handlers from a state with deferred and in-flight messages; the takeover, will and counter histories through the real connection handler with goroutines"},
 "thorough": {"harnesses": [H("VerifC32Sweep"), H("VerifC32Handlers"), H("VerifC14Takeover", PREEMPT=1), H("VerifC16Will"), H("VerifC38Counters", STEPS=3), H("VerifC03History", STEPS=3)], "budget_s": 3000, "witnesses": 3, "perm_limit": 1, "lock_check": True, "bounds": "as quick with one pre-emption in the takeover scenario and longer histories"},
 "outside_bounds": ["liveness beyond mutexes: blocking on channels, WaitGroups, connection writes, scheduler fairness ('no goroutine blocks forever', 'keeps serving')", "listeners package and storage hooks", "lock acquisition sites not executed by these harnesses (the executed sites are listed in the evidence)"],
 "stubs": SRV_STUBS + LIVE, "trusted_base": SRV_TB,
}
# ---------------- C34 ----------------
C["C34"] = {
 "pkgs": ["."],
 "technique": "bounded symbolic execution of WritePacket/flushOutbuf/publishToClient over solver-chosen write scripts with small buffer sizes; the broker's own sent-reports (OnPacketSent) are compared with the packets parsed from the connection transcript at quiescence",
 "quick": {"harnesses": [H("VerifC34Flush", STEPS=3, PAYLOAD=8), H("VerifC34WriteError", MSGS=3)], "budget_s": 600, "witnesses": 6, "perm_limit": 1,
   "bounds": "ClientNetWriteBufferSize in {8,16,24}, outbound queue capacity 1..3, client Maximum Packet Size absent or symbolic 6..20, every script of 3 steps among {message of 0..8 payload bytes enters publishToClient, direct write, write loop takes one packet}; connection write errors as decisions over 3 messages"},
 "thorough": {"harnesses": [H("VerifC34Flush", STEPS=4, PAYLOAD=10), H("VerifC34WriteError", MSGS=4)], "budget_s": 3600, "witnesses": 12, "perm_limit": 1, "bounds": "scripts of 4 steps, payload up to 10 bytes"},
 "outside_bounds": ["the real WriteLoop goroutine racing with direct writes (its body is executed by the harness, one packet at a time)", "in-flight limit and packet-id exhaustion drops (reported via their own hooks; exercised in C38/C10)"],
 "stubs": SRV_STUBS, "trusted_base": SRV_TB,
}
# ---------------- C38 ----------------
C["C38"] = {
 "pkgs": ["."],
 "technique": "bounded symbolic execution of solver-chosen histories through the real connection handler, request handlers and housekeeping; after every step the $SYS counters are compared with counts recomputed from the real data structures",
 "quick": {"harnesses": [H("VerifC38Counters", STEPS=3, QUEUE=1), H("VerifC38Counters", STEPS=2, QUEUE=1, LIMIT=1)], "budget_s": 400, "witnesses": 6, "perm_limit": 1,
   "bounds": "one client (protocol 4/5, clean or not), every history of 3 steps among {subscribe, unsubscribe (also of a filter never held), QoS 1 delivery (retained or not), client retained publish set/clear, PUBACK, connection lost / reconnect, housekeeping at a symbolic time, burst of two messages into a queue of capacity 1}; and histories of 2 steps with MaximumClients = 1 and connection attempts of a second client (refused, or admitted while the first is away)"},
 "thorough": {"harnesses": [H("VerifC38Counters", STEPS=4, QUEUE=1), H("VerifC38Counters", STEPS=3, QUEUE=4), H("VerifC38Counters", STEPS=3, QUEUE=1, LIMIT=1)], "budget_s": 3000, "witnesses": 12, "perm_limit": 1, "bounds": "histories of 4 steps"},
 "outside_bounds": ["counters other than clients connected, subscriptions, retained, in-flight", "several clients"],
 "stubs": SRV_STUBS + LIVE, "trusted_base": SRV_TB,
}

# ---------------- C35 ----------------
C["C35"] = {
 "pkgs": ["."],
 "technique": "context-bounded symbolic execution of two or three real connection handlers (attachClient) as interpreted goroutines: every interleaving at synchronisation operations (atomics, locks, channel and connection operations) with at most k pre-emptions is an engine decision",
 "quick": {"harnesses": [H("VerifC35Limit", CONNS=2, MAX=1, PREEMPT=1), H("VerifC35Limit", CONNS=3, MAX=2, PREEMPT=0), H("VerifC35History", MAX=2, STEPS=3, PREEMPT=0)], "budget_s": 300, "witnesses": 4, "perm_limit": 1,
   "bounds": "2 concurrent attempts with MaximumClients=1 and <= 1 pre-emption; 3 attempts with MaximumClients=2 under cooperative scheduling; protocol 4/5; sequential histories of 3 steps among {connect, takeover of a live connection, hang-up} followed by MaximumClients+1 fresh attempts"},
 "thorough": {"harnesses": [H("VerifC35Limit", CONNS=2, MAX=1, PREEMPT=2), H("VerifC35Limit", CONNS=3, MAX=2, PREEMPT=1), H("VerifC35History", MAX=2, STEPS=4, PREEMPT=0)], "budget_s": 1800, "witnesses": 4, "perm_limit": 1, "bounds": "<= 2 pre-emptions for 2 attempts, <= 1 for 3 attempts"},
 "outside_bounds": ["more pre-emptions / more connections", "pre-emption between non-synchronising instructions (sound only for data-race-free code; C33 is not decided)", "counterexample schedules are not natively replayable without yield hooks in /repo (none are installed); they are reported with the decision list"],
 "stubs": SRV_STUBS + LIVE, "trusted_base": SRV_TB,
}

# ---------------- C20 / C21 / C22 (storage boundary) ----------------
BACKENDS = ["bolt", "badger", "pebble", "redis"]
ST_PKGS = ["./hooks/storage/" + b for b in BACKENDS]
ST_STUBS = SRV_STUBS + LIVE + [
 "storage engines: badger, pebble, bbolt and go-redis are replaced at their ~30 call sites (Txn.Set/Delete/Get, iterators, Bucket.Put/Delete/Get/Cursor, DB.Set/Delete/Get/NewIter, HSet/HDel/HGet/HGetAll) by an abstract ordered key->record map with a write log",
 "encoding/json: replaced at the four MarshalBinary/UnmarshalBinary pairs of hooks/storage by a record copy that honours the json tags: an `omitempty` field that is empty is absent and leaves the destination field as it was (assumption: JSON round-trips the tagged fields)",
 "Hook.Init (opening the database) is not executed; the harness builds the hook with a placeholder handle"]
def st(h, **kw):
    return [H(h, pkg="./hooks/storage/" + b, **kw) for b in BACKENDS]
C["C20"] = {
 "pkgs": ST_PKGS + ["."],
 "technique": "bounded symbolic execution of the real storage hooks of all four back ends and of the server's restore path (readStore, load*) above an abstract key->record map: field fidelity with symbolic records, key injectivity with symbolic identifiers, restart equivalence through the real connection handler",
 "quick": {"harnesses": st("VerifC20Fields") + st("VerifC20Keys") + st("VerifC20KeysClients") + st("VerifC20Restart") + st("VerifC20Resume") + st("VerifC20Independent"), "budget_s": 600, "witnesses": 2, "perm_limit": 1,
   "bounds": "per back end: one client record with symbolic expiry settings/limits/will, one subscription with all options symbolic, one retained and one in-flight message with symbolic ids, times, properties; two (client id, filter) pairs and two client ids/topics of 1..3 bytes over {: _ / a}; restart after connect + subscribe + retained publish + one unacknowledged QoS 1 delivery (protocol 4/5); restart after a session resume (takeover or reconnect) with any subset of {outbound QoS 2 at PUBLISH or PUBREL stage, outbound QoS 1, inbound QoS 2 awaiting PUBREL} in flight"},
 "thorough": {"harnesses": st("VerifC20Fields") + st("VerifC20Keys") + st("VerifC20KeysClients") + st("VerifC20Restart") + st("VerifC20Resume") + st("VerifC20Independent"), "budget_s": 1800, "witnesses": 4, "perm_limit": 2, "bounds": "as quick with map orders up to 2"},
 "outside_bounds": ["the storage engines themselves and the JSON codec (stubbed: an LSM tree or a redis server is not a bounded arithmetic kernel)", "longer histories before the restart", "identifiers longer than 3 bytes"],
 "stubs": ST_STUBS, "trusted_base": SRV_TB,
}
C["C21"] = {
 "pkgs": ST_PKGS + ["."],
 "technique": "crash-point enumeration as engine decisions: the abstract store keeps a write log, the crash index ranges over every prefix of it, broker B is restored from the prefix through the real readStore/load* and compared with what had been acknowledged to clients by then",
 "quick": {"harnesses": st("VerifC21Crash"), "budget_s": 900, "witnesses": 2, "perm_limit": 1,
   "bounds": "history: a clean-session client subscribes and leaves; a persistent session (protocol 4/5) subscribes (SUBACK); a publisher sends a retained QoS 1 message (PUBACK) and a QoS 1 message left unacknowledged by the subscriber; optional takeover of the live session; crash after every storage write of that history; then a Clean Start 1 connection with the clean session's id"},
 "thorough": {"harnesses": st("VerifC21Crash"), "budget_s": 2400, "witnesses": 4, "perm_limit": 1, "bounds": "as quick"},
 "outside_bounds": ["torn writes inside one engine transaction", "the window between a PUBACK to the publisher and the storage of the resulting in-flight message (the harness has no log index for the acknowledgement instant)", "longer histories, expiry before the crash"],
 "stubs": ST_STUBS, "trusted_base": SRV_TB,
}
C["C22"] = {
 "pkgs": ["./config"] + ST_PKGS + ["."],
 "technique": "differential symbolic execution: the same solver-chosen storage events with the same symbolic arguments are delivered to the real hooks of the four back ends, each on its own abstract store; the Stored* answers are compared as sets (equal-in => equal-out per event gives equality after any sequence by induction)",
 "quick": {"harnesses": [H("VerifC22Step", pkg="./config", EVENTS=1)], "budget_s": 400, "witnesses": 6, "perm_limit": 1,
   "bounds": "one event among the 12 storage hook events with symbolic arguments (client in {a,b}, expire/taken-over flags, filter and topic from 2 each, retain result in {1,-1,0}, 16-bit packet id, 32-bit session expiry, QoS) from empty stores"},
 "thorough": {"harnesses": [H("VerifC22Step", pkg="./config", EVENTS=2)], "budget_s": 2400, "witnesses": 12, "perm_limit": 1, "bounds": "every sequence of two events"},
 "outside_bounds": ["sequences longer than two events (covered inductively only if equal Stored* answers imply equal stores, which holds for these key-value hooks)", "the engines and JSON (stubbed)", "store-internal ID/T fields"],
 "stubs": ST_STUBS, "trusted_base": SRV_TB,
}

# ---------------- C39 (WebSocket transport) ----------------
WS_STUBS = ["gorilla/websocket: (*Conn).NextReader and (*Conn).WriteMessage are replaced (engine redirect table) by the Go stubs vStubWsNextReader / vStubWsWriteMessage in harness/listeners/c39.go: the peer is a scripted message list; each message reader returns at most the rest of the current frame per Read and io.EOF with n == 0 at the end of the message (the contract of gorilla's messageReader); after the last message NextReader reports a close error; the HTTP upgrade is not executed (native replay runs it for real on a loopback httptest server)",
 "bufio.Reader over wsConn: engine model of fill/ReadByte/ReadFull with the real buffer size (up to 100 empty reads, error after the buffered bytes)"]
C["C39"] = {
 "pkgs": [".", "./listeners"],
 "technique": "bounded symbolic execution of the real wsConn.Read / wsConn.Write over a scripted WebSocket peer with symbolic message bytes, for every message list, fragmentation and read-buffer sequence within the bound; then differential execution of the real connection handler on the same MQTT byte stream over a plain connection and through wsConn with solver-chosen cut points (symbolic payload, transcripts compared as SMT terms)",
 "quick": {"harnesses": [H("VerifC39Read", pkg="./listeners", MSGS=2, LEN=2, FRAME=1), H("VerifC39Write", pkg="./listeners"), H("VerifC39Broker", MODE=0), H("VerifC39Broker", MODE=1), H("VerifC39Broker", MODE=2)], "budget_s": 300, "witnesses": 4, "perm_limit": 1,
   "bounds": "wsConn.Read: 0..2 messages, each binary or text, 0..2 symbolic bytes, whole or in 1-byte frames; read buffers: two arbitrary sizes 0..3 then one arbitrary size 1..3 for all later reads, until the stream ends; wsConn.Write: 0..3 writes of 0..3 symbolic bytes; broker: CONNECT+SUBSCRIBE+PUBLISH(QoS 1, symbolic payload)+PINGREQ (protocol 4/5) cut at any byte into three messages (second of 0..3 bytes), or into equal messages of 1..3 bytes, or interrupted at any byte by a text message"},
 "thorough": {"harnesses": [H("VerifC39Read", pkg="./listeners", MSGS=3, LEN=3, FRAME=2), H("VerifC39Write", pkg="./listeners", WRITES=4, LEN=4), H("VerifC39Broker", MODE=0), H("VerifC39Broker", MODE=1), H("VerifC39Broker", MODE=2)], "budget_s": 1800, "witnesses": 8, "perm_limit": 1,
   "bounds": "as quick with 0..3 messages of 0..3 bytes in frames of 1 or 2 bytes, buffers up to 4 bytes, 0..4 writes of 0..4 bytes"},
 "outside_bounds": ["the gorilla library itself (framing, masking, control frames, the HTTP upgrade): stubbed at NextReader/WriteMessage", "messages longer than the bufio buffer (2048 bytes)", "read errors in the middle of a message", "more than three cuts chosen independently"],
 "stubs": SRV_STUBS + WS_STUBS, "trusted_base": SRV_TB,
}

# ---------------- C36 (shutdown) ----------------
C["C36"] = {
 "pkgs": [".", "./listeners"],
 "technique": "context-bounded symbolic execution of the real Server.Close, Listeners.CloseAll, closeListenerClients and the real connection handlers (attachClient with WriteLoop) as interpreted goroutines: the position of the second connection relative to Close (waiting for CONNECT, handed over concurrently, scheduled after Close) and every switch at synchronisation operations within the pre-emption / scheduling bound are engine decisions; obligations asserted at quiescence",
 "quick": {"harnesses": [H("VerifC36Shutdown", STAGE=0, PREEMPT=1, SCHED=1), H("VerifC36Shutdown", STAGE=1, PREEMPT=1, SCHED=1), H("VerifC36Shutdown", STAGE=2, PREEMPT=1, SCHED=1), H("VerifC36Shutdown", STAGE=3, PREEMPT=1, SCHED=1), H("VerifC36Shutdown", STAGE=4, PREEMPT=0, SCHED=1, PERM=2)], "budget_s": 900, "witnesses": 3, "perm_limit": 1,
   "bounds": "one listener (the repository's MockListener); connection 1 (protocol 4/5) attached before Close; connection 2 (protocol 4/5) waiting for its CONNECT when Close is called (CONNECT arrives during the shutdown), or handed to its handler goroutine concurrently with Close, or absent, or first scheduled after Close returned, or attached through a second listener (both orders of closing the listeners); at most 1 pre-emption at a synchronisation operation and at most 1 non-default choice among runnable goroutines when one blocks"},
 "thorough": {"harnesses": [H("VerifC36Shutdown", STAGE=0, PREEMPT=2, SCHED=1), H("VerifC36Shutdown", STAGE=1, PREEMPT=1, SCHED=2), H("VerifC36Shutdown", STAGE=2, PREEMPT=2, SCHED=1), H("VerifC36Shutdown", STAGE=3, PREEMPT=1, SCHED=2), H("VerifC36Shutdown", STAGE=4, PREEMPT=1, SCHED=1, PERM=2)], "budget_s": 3000, "witnesses": 3, "perm_limit": 1,
   "bounds": "as quick with 2 pre-emptions (stages 0, 2) or 2 non-default scheduling choices (stages 1, 3)"},
 "outside_bounds": ["the listeners' accept loops, net.Listener.Close / Accept and http.Server.Shutdown (runtime and net package: not encoded; the accept loop is represented by its effect, a goroutine calling the establish function)", "more than two connections, more than one listener", "schedules beyond the pre-emption / scheduling bound", "the event loop goroutine (Serve is not called)"],
 "stubs": SRV_STUBS + LIVE, "trusted_base": SRV_TB,
}

# ---------------- C33 (data races) ----------------
C33_MENUS_QUICK = [13, 3076, 67, 8448]           # bit masks over the 13 activities, see harness/root/c33.go
C33_MENUS_THOROUGH = [13, 3076, 67, 4161, 8448]  # (sub-menus containing a housekeeping round have too many lock releases for one pre-emption)
def c33(thorough):
    hs = [H("VerifC33SelfTest", pkg="./mempool", RACE_HARNESS=1), H("VerifC33Pair", ACTS=2, PRE=0, SCH=1, PERM=1)]
    if thorough:
        for m in C33_MENUS_THOROUGH:
            hs.append(H("VerifC33Pair", ACTS=2, PRE=1, SCH=1, PERM=1, MENU=m))
        hs.append(H("VerifC33Pair", ACTS=3, PRE=0, SCH=1, PERM=1, MENU=1101))
    else:
        for m in C33_MENUS_QUICK:
            hs.append(H("VerifC33Pair", ACTS=2, PRE=1, SCH=1, PERM=1, PREAT=1, MENU=m))
    return hs
C["C33"] = {
 "pkgs": [".", "./listeners", "./mempool"],
 "technique": "happens-before (vector clock) race analysis over bounded symbolic execution of concurrent scenarios: the real connection handlers, WriteLoops, housekeeping rounds and inline API calls run as interpreted goroutines; every load/store of interpreted memory is recorded, every synchronisation operation (go, Mutex/RWMutex, sync/atomic, channels, WaitGroup, Once, Pool, context) transfers clocks; scenario choice, inputs and goroutine switches are engine decisions whose feasibility the solver decides; a race is two conflicting accesses on a feasible path that no happens-before chain orders, replayed natively under the Go race detector",
 "quick": {"harnesses": c33(False), "budget_s": 1200, "witnesses": 1, "perm_limit": 1, "race_check": True,
   "bounds": "control: a race planted in the harness's own code must be found (and the mutex- and channel-ordered accesses next to it must not); scenario: clients a (delayed will) and b (persistent subscriber, also member of a share group), protocol 4/5 each, pre-state {b holds an unacknowledged message and a retained message exists} x {a offline with its delayed will pending}; (i) every pair of distinct activities among the 14 {a publishes QoS 1 retained, b acknowledges, b subscribes (plain / share group), b unsubscribes (plain / share group), a disconnects, a's connection is lost, takeover of b, a connects again, housekeeping round with everything expired, housekeeping round now, inline Publish, inline Subscribe+Unsubscribe, Server.Close, a disconnects changing its session expiry} started together under cooperative scheduling with at most one non-default choice among runnable goroutines; (ii) for four sub-menus ({publish, subscribe, unsubscribe}, {subscribe, inline Publish, inline Subscribe+Unsubscribe}, {publish, acknowledge, takeover}, {disconnect with new session expiry, housekeeping}), every pair with one pre-emption placed right after a lock release (the use-after-unlock window)"},
 "thorough": {"harnesses": c33(True), "budget_s": 10000, "witnesses": 1, "perm_limit": 1, "race_check": True,
   "bounds": "as quick, with the pre-emption of (ii) at any synchronisation operation and a fourth sub-menu {publish, takeover, Close}, and triples of activities from a sub-menu of five under cooperative scheduling"},
 "outside_bounds": ["a happens-before analysis sees the races of the schedules it explores: a race that needs more pre-emptions, other activities or other pre-states is not reported (bug-finding strength within the bound, not a proof of race freedom)", "accesses inside engine-stubbed code (net.Conn, bufio, time, slog, storage engines) and element accesses made through the copy/append built-ins are not recorded", "memory-model effects below sequential consistency", "listeners' accept loops (as for C36)"],
 "stubs": SRV_STUBS + LIVE, "trusted_base": SRV_TB + ["engine/race.go: vector-clock happens-before model (over-approximates ordering where unsure: it may miss a race, it does not invent one)"],
}

def main():
    os.makedirs(os.path.join(root, "checks"), exist_ok=True)
    for cid, c in C.items():
        c = dict(c); c["id"] = cid
        json.dump(c, open(os.path.join(root, "checks", cid + ".json"), "w"), indent=1)
    print("wrote", len(C), "check specs")
if __name__ == "__main__":
    main()
