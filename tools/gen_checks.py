#!/usr/bin/env python3
"""Writes checks/<ID>.json (bounds, harness lists) — the single place where bounds are stated."""
import json, os
root = os.path.dirname(os.path.dirname(os.path.abspath(__file__)))
C = {}
ENGINE_TB = ["symgo engine (go/ssa -> SMT-LIB2 translation, validated by native witness replay on every run)", "z3 4.8.12"]

def H(fn, pkg=None, **params):
    d = {"fn": fn}
    if pkg: d["pkg"] = pkg
    if params: d["params"] = params
    return d

# ---------------- C29 ----------------
C["C29"] = {
 "pkgs": ["./packets"],
 "technique": "bounded symbolic execution of go/ssa (own engine) + SMT (z3): value->bytes over the whole 28-bit range as one symbolic value; bytes->value for every byte string up to N bytes",
 "quick": {"harnesses": [H("VerifC29Encode"), H("VerifC29Decode", N=7)], "budget_s": 120, "witnesses": 12,
   "bounds": "encode: v symbolic in 0..268435455 (whole range, no enumeration), loop unrolled by execution (<=4 iterations; step budget acts as unwinding assertion); decode: every byte string of length 0..7 followed by EOF"},
 "thorough": {"harnesses": [H("VerifC29Encode"), H("VerifC29Decode", N=10)], "budget_s": 900, "witnesses": 48,
   "bounds": "as quick, decode input length 0..10"},
 "outside_bounds": ["readers that fail mid-stream with errors other than EOF", "decode inputs longer than the stated length (the decoder never looks past the 4th byte, shown by the consumed-le4 assertion)"],
 "stubs": ["none: bytes.Buffer runs from its real SSA; bytes.Equal is a term-level intrinsic"],
 "trusted_base": ENGINE_TB + ["harness oracle: minimal-length table of MQTT 1.5.5"],
}

# ---------------- C27 ----------------
types = ["Connect","Connack","Publish","Puback","Pubrec","Pubrel","Pubcomp","Subscribe","Suback","Unsubscribe","Unsuback","Disconnect","Auth"]
def c27(n5, n4, n3):
    hs = []
    for t in types:
        hs.append(H("VerifC27"+t, N=n5, VER=5))
        hs.append(H("VerifC27"+t, N=n4, VER=4))
        hs.append(H("VerifC27"+t, N=n3, VER=3))
    hs.append(H("VerifC27Primitives", N=6))
    return hs
C["C27"] = {
 "pkgs": ["./packets"],
 "technique": "bounded symbolic execution of all 13 real decoders (go/ssa) on an unconstrained symbolic buffer; every bounds check is an SMT query; panic = counterexample, replayed natively",
 "quick": {"harnesses": c27(8, 9, 8), "budget_s": 400, "witnesses": 4,
   "bounds": "every byte string of length 0..8 (v5), 0..9 (v4), 0..8 (v3) as the body of each of the 13 packet types; PUBLISH with symbolic QoS 0..2; FixedHeader.Remaining = len(buf)"},
 "thorough": {"harnesses": c27(10, 12, 10), "budget_s": 3000, "witnesses": 8,
   "bounds": "every byte string of length 0..10 (v5), 0..12 (v4), 0..10 (v3) for each of the 13 packet types"},
 "outside_bounds": ["buffers longer than the stated length (the same code runs with larger offsets: stated, not proven)", "FixedHeader.Remaining different from len(buf) (ReadPacket always passes a buffer of exactly Remaining bytes)"],
 "stubs": ["utf8.Valid: exact term-level encoding of UTF-8 validity (no forking)", "bytes.Buffer: real SSA"],
 "trusted_base": ENGINE_TB,
}

# ---------------- C42 ----------------
def c42(thorough):
    hs = [H("VerifC42Puback"), H("VerifC42Pubrec"), H("VerifC42Pubrel"), H("VerifC42Pubcomp"), H("VerifC42AckV4"),
          H("VerifC42Disconnect"), H("VerifC42Auth"),
          H("VerifC42Subscribe", VER=5, F=2), H("VerifC42Subscribe", VER=4, F=2),
          H("VerifC42Unsubscribe", VER=5), H("VerifC42Unsubscribe", VER=4),
          H("VerifC42Publish", VER=5, PROPS=6 if thorough else 4), H("VerifC42Publish", VER=4)]
    return hs
C["C42"] = {
 "pkgs": ["./packets"],
 "technique": "differential symbolic execution: reference encoder written from the MQTT spec (intended fields symbolic, encoding choices as decisions) vs the real decoders; every equality is an SMT query",
 "quick": {"harnesses": c42(False), "budget_s": 300, "witnesses": 6,
   "bounds": "acks: 16-bit id, 8-bit reason, forms rl=2/3/full, <=2 properties in both orders, strings <=2 bytes; DISCONNECT/AUTH: forms rl=0/1/2/full, <=3 properties in all 6 orders; SUBSCRIBE: 1-2 filters of 1-2 bytes, all option bits, subscription identifier over the whole 28-bit range (4 length classes), 2 property orders; PUBLISH: QoS 0-2, <=3 of 4 properties in every order"},
 "thorough": {"harnesses": c42(True), "budget_s": 1800, "witnesses": 16,
   "bounds": "as quick; PUBLISH chooses <=3 of 6 properties in every order"},
 "outside_bounds": ["CONNECT property orders (covered for value fidelity by C26)", "longer strings / more than 3 simultaneous properties / repeated user properties beyond 1", "the behavioural clause (DISCONNECT 0x04 publishes the will) is decided at handler level in C16"],
 "stubs": ["utf8.Valid: exact term-level encoding"],
 "trusted_base": ENGINE_TB + ["reference encoder harness/packets/ref.go (50 lines, from MQTT 5 sections 2.2.2, 3.4-3.7, 3.8, 3.10, 3.14, 3.15)"],
}

# ---------------- C26 ----------------
alltypes = types + ["Pingreq", "Pingresp"]
def c26(thorough):
    hs = []
    for t in alltypes:
        if t in ("Publish", "Connect", "Connack"):
            G = 2 if thorough else 3
            if t == "Connect" and not thorough: G = 4
            for g in range(G):
                hs.append(H("VerifC26"+t, VER=5, G=G, GRP=g, L=1))
        else:
            hs.append(H("VerifC26"+t, VER=5, L=2 if thorough else 1))
        hs.append(H("VerifC26"+t, VER=4, L=2 if thorough else 1))
    hs.append(H("VerifC26Connect", VER=3, L=1))
    hs.append(H("VerifC26Publish", VER=3, L=1))
    for t in ["Connect","Connack","Publish","Puback","Pubrel","Subscribe","Suback","Unsubscribe","Unsuback","Disconnect","Auth"]:
        hs.append(H("VerifC26Re"+t, VER=5, N=8 if thorough else 6))
        hs.append(H("VerifC26Re"+t, VER=4, N=9 if thorough else 6))
    return hs
C["C26"] = {
 "pkgs": ["./packets"],
 "technique": "bounded symbolic execution of all 15 real Encode/Decode pairs: symbolic packet -> Encode -> FixedHeader.Decode + DecodeLength -> Decode -> field-wise equivalence as SMT queries; and accepted byte string -> Encode -> Decode",
 "quick": {"harnesses": c26(False), "budget_s": 600, "witnesses": 3,
   "bounds": "direction 1: every integer field full width, flags/QoS symbolic, strings and binaries 0..1(+1) bytes over {a,b,/} (+ wildcards in filters), <=2 filters, <=1 user property, each optional property toggled; for PUBLISH/CONNECT/CONNACK the optional properties are toggled in 3-4 disjoint groups (G), others absent; direction 2: every byte string of length 0..6 per type (v5, v4)"},
 "thorough": {"harnesses": c26(True), "budget_s": 3000, "witnesses": 6,
   "bounds": "as quick with strings up to 2 bytes, 2 property groups, direction 2 up to 8 (v5) / 9 (v4) bytes"},
 "outside_bounds": ["strings longer than the bound, remaining length > 127 (the varint itself is C29's over the whole range)", "non-ASCII text (UTF-8 validity is exercised on the decode side in C27)", "simultaneous presence of optional properties from different groups (quick tier)", "will properties in CONNECT (thorough only)"],
 "stubs": ["sync.Pool (mempool): LIFO reuse model; Reset() is the real bytes.Buffer code"],
 "assumptions": ["well-formedness assumed only as documented: non-zero packet id where required, topic alias != 0, subscription identifier != 0, Maximum QoS in {0,1}, DUP only with QoS>0; Mods.AllowResponseInfo=true so nothing is suppressed"],
 "trusted_base": ENGINE_TB + ["equivalence relation vPacketEq/vPropsEq in harness/packets/c26.go (omitted optional property = its specified default)"],
}

# ---------------- C30 ----------------
C["C30"] = {
 "pkgs": ["."],
 "technique": "differential symbolic execution of IsValidFilter / processSubscribe against a reference validity predicate written from the statement; every string over the alphabet up to N bytes",
 "quick": {"harnesses": [H("VerifC30Filter", N=5), H("VerifC30Share", N=4), H("VerifC30Topic", N=5)], "budget_s": 200, "witnesses": 8,
   "bounds": "filters: every string of 0..5 bytes over {/ + # $ a s r h e}; share filters: '$share/' + every string of 0..4 bytes over {/ + # a g}; publish topics: every string of 0..5 bytes over {/ + # $ S Y a}"},
 "thorough": {"harnesses": [H("VerifC30Filter", N=8), H("VerifC30Share", N=7), H("VerifC30Topic", N=8)], "budget_s": 1500, "witnesses": 24,
   "bounds": "as quick with 0..8, 0..7, 0..8 bytes"},
 "outside_bounds": ["upper/lower-case variants of $share and $SYS (the code folds case, the statement is silent)", "bytes outside the alphabet (they behave like 'a' in the code paths concerned)", "longer strings"],
 "stubs": ["strings.IndexRune/ContainsRune/ContainsAny/EqualFold: term-level intrinsics (ASCII)"],
 "trusted_base": ENGINE_TB + ["reference predicate refValidFilter/refValidTopic in harness/root/ref.go"],
}

# ---------------- C01 ----------------
C["C01"] = {
 "pkgs": ["."],
 "technique": "differential symbolic execution of the real topic trie (Subscribe/InlineSubscribe/Subscribers) against a level-wise reference matcher; filter and topic bytes symbolic",
 "quick": {"harnesses": [H("VerifC01Client", F=4, T=3), H("VerifC01Shared", F=3, T=3), H("VerifC01Inline", F=3, T=3), H("VerifC01Client", F=3, T=3, EXTRA=1), H("VerifC01Two", F=2, T=3)], "budget_s": 300, "witnesses": 8,
   "bounds": "one subscription (client / $share/g/ / inline) with every valid filter of 1..4 (client) or 1..3 bytes over {/ + # $ a b} against every topic of 1..3 bytes over {/ $ a b}; two overlapping subscriptions of one client with filters of 1..2 bytes"},
 "thorough": {"harnesses": [H("VerifC01Client", F=6, T=5), H("VerifC01Shared", F=5, T=4), H("VerifC01Inline", F=5, T=4), H("VerifC01Two", F=3, T=3)], "budget_s": 3000, "witnesses": 24,
   "bounds": "filters up to 6 bytes, topics up to 5 bytes (3 levels incl. empty levels); two subscriptions with filters up to 3 bytes"},
 "outside_bounds": ["more than two subscriptions, deeper tries", "filters are assumed valid by the reference predicate (invalid filters are C30's)"],
 "stubs": ["sync.RWMutex: lock tracker (never blocks in a single goroutine)"],
 "trusted_base": ENGINE_TB + ["reference matcher refMatch in harness/root/ref.go (30 lines, MQTT 4.7)"],
}

# ---------------- C02 ----------------
C["C02"] = {
 "pkgs": ["."],
 "technique": "differential symbolic execution of RetainMessage/Messages against a map model filtered by the reference matcher",
 "quick": {"harnesses": [H("VerifC02Messages", F=3, T=2, H=2)], "budget_s": 300, "witnesses": 8,
   "bounds": "history of 2 retain/clear operations on topics of 1..2 bytes over {/ $ a b}, then every valid filter of 1..3 bytes over {/ + # $ a b}; every iteration order of maps with <= 3 entries"},
 "thorough": {"harnesses": [H("VerifC02Messages", F=4, T=3, H=3)], "budget_s": 3000, "witnesses": 16,
   "bounds": "3 operations, topics up to 3 bytes, filters up to 4 bytes"},
 "outside_bounds": ["more than 2 distinct retained topics", "longer histories"],
 "stubs": ["sync.RWMutex: lock tracker"],
 "trusted_base": ENGINE_TB + ["refMatch; last-writer-wins map model in the harness"],
}

def main():
    os.makedirs(os.path.join(root, "checks"), exist_ok=True)
    for cid, c in C.items():
        c = dict(c); c["id"] = cid
        json.dump(c, open(os.path.join(root, "checks", cid + ".json"), "w"), indent=1)
    print("wrote", len(C), "check specs")
if __name__ == "__main__":
    main()
