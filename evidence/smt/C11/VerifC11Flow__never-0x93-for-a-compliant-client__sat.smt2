; expected: sat
(push 1)
(declare-const clock_1 (_ BitVec 64))
(assert (and (bvsge clock_1 #x0000000040000000) (bvslt clock_1 #x0000000100000000)))
(assert (bvsgt (bvadd clock_1 #x0000000000015180) #x0000000000000000))
(assert (not (bvslt (bvsub (bvadd clock_1 #x0000000000015180) clock_1) #x0000000000000001)))
(push 1)
(check-sat)
