; expected: sat
(push 1)
(push 1)
(check-sat)
