; expected: sat
(push 1)
(declare-const b_1 (_ BitVec 8))
(push 1)
(check-sat)
