; expected: unsat
(push 1)
(declare-const u16_1 (_ BitVec 16))
(declare-const u8_2 (_ BitVec 8))
(push 1)
(define-fun t!654 () Bool (= (bvor (bvshl ((_ zero_extend 8) ((_ extract 7 0) (bvlshr u16_1 #x0008))) #x0008) ((_ zero_extend 8) ((_ extract 7 0) u16_1))) u16_1))
(define-fun t!655 () Bool (not t!654))
(assert t!655)
(check-sat)
