; expected: unsat
(push 1)
(declare-const c_1 (_ BitVec 8))
(assert (or (or (= c_1 #x00) (= c_1 #x18)) (= c_1 #x19)))
(assert (= c_1 #x00))
(push 1)
(assert (not (= #x00 c_1)))
(check-sat)
