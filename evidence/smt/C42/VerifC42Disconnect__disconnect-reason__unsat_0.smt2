; expected: unsat
(push 1)
(declare-const u8_1 (_ BitVec 8))
(assert (= u8_1 #x00))
(push 1)
(assert (not (= #x00 u8_1)))
(check-sat)
