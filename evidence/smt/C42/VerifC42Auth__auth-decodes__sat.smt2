; expected: sat
(push 1)
(declare-const c_1 (_ BitVec 8))
(assert (or (or (= c_1 #x00) (= c_1 #x18)) (= c_1 #x19)))
(push 1)
(check-sat)
