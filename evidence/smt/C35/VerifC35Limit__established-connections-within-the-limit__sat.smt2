; expected: sat
(push 1)
(declare-const clock_1 (_ BitVec 64))
(assert (and (bvsge clock_1 #x0000000040000000) (bvslt clock_1 #x0000000100000000)))
(declare-const c_2 (_ BitVec 8))
(assert (or (= c_2 #x04) (= c_2 #x05)))
(assert (= c_2 #x04))
(push 1)
(check-sat)
