; expected: unsat
(push 1)
(declare-const b_1 (_ BitVec 8))
(declare-const b_2 (_ BitVec 8))
(declare-const b_3 (_ BitVec 8))
(assert (= b_3 #x00))
(push 1)
(assert (not (= b_3 #x00)))
(check-sat)
