; expected: sat
(push 1)
(declare-const p_1 Bool)
(declare-const u16_2 (_ BitVec 16))
(declare-const b_3 (_ BitVec 8))
(assert p_1)
(push 1)
(check-sat)
