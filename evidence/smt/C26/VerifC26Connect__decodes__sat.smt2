; expected: sat
(push 1)
(declare-const p_1 Bool)
(declare-const u16_2 (_ BitVec 16))
(assert p_1)
(push 1)
(check-sat)
