; expected: unsat
(push 1)
(declare-const u16_1 (_ BitVec 16))
(declare-const b_2 (_ BitVec 8))
(push 1)
(define-fun t!5738231 () Bool (= u16_1 (bvor (bvshl ((_ zero_extend 8) ((_ extract 7 0) (bvlshr u16_1 #x0008))) #x0008) ((_ zero_extend 8) ((_ extract 7 0) u16_1)))))
(define-fun t!5738232 () Bool (not t!5738231))
(assert t!5738232)
(check-sat)
