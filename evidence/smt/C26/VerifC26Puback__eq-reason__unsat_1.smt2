; expected: unsat
(push 1)
(declare-const u16_1 (_ BitVec 16))
(declare-const u8_2 (_ BitVec 8))
(assert (= u8_2 #x00))
(push 1)
(assert (not (= u8_2 #x00)))
(check-sat)
