package mempool

import "bytes"

// C41: a buffer obtained from the pool is always empty and never handed to two users at once; a capped
// pool never hands out a buffer whose capacity exceeds its cap. sync.Pool is modelled adversarially:
// Get may return ANY pooled element or a fresh one (engine decision).
func VerifC41Pool() {
	max := vParam("CAP", 0)
	p := NewBuffer(max)
	var held []*bytes.Buffer
	steps := vParam("STEPS", 4)
	for i := 0; i < steps; i++ {
		switch vChoose(3) {
		case 0: // get
			b := p.Get()
			vAssert("buffer-from-pool-is-empty", b.Len() == 0)
			for _, h := range held {
				vAssert("buffer-not-handed-to-two-users", h != b)
			}
			if max > 0 {
				vAssert("capped-pool-never-hands-out-oversized-buffer", b.Cap() <= max)
			}
			held = append(held, b)
		case 1: // a holder writes n bytes
			if len(held) > 0 {
				k := vChoose(len(held))
				n := vLen(vParam("W", 6))
				held[k].Write(make([]byte, n))
			}
		case 2: // a holder returns its buffer
			if len(held) > 0 {
				k := vChoose(len(held))
				p.Put(held[k])
				held = append(held[:k], held[k+1:]...)
			}
		}
	}
	vReach("end")
}

// the package-level pool used by the codec
func VerifC41Global() {
	a := GetBuffer()
	vAssert("global-buffer-empty", a.Len() == 0)
	a.Write(vBytes(vLen(3)))
	PutBuffer(a)
	b := GetBuffer()
	vAssert("global-buffer-empty-after-reuse", b.Len() == 0)
	c := GetBuffer()
	vAssert("global-buffers-distinct", b != c)
	vReach("end")
}
