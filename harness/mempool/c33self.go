package mempool

import "sync"

type vRaceBox struct {
	mu sync.Mutex
	a  int
	b  int
}

func (x *vRaceBox) incA()       { x.a++ }
func (x *vRaceBox) incBLocked() { x.mu.Lock(); x.b++; x.mu.Unlock() }

// selftest of the race analysis: a is written by two goroutines without synchronisation (race), b under a mutex (none)
func VerifC33SelfTest() {
	x := new(vRaceBox)
	done := make(chan bool)
	go func() { x.incA(); x.incBLocked(); done <- true }()
	x.incA()
	x.incBLocked()
	<-done
	x.incA() // ordered after the goroutine by the channel: no race
	vReach("end")
}
