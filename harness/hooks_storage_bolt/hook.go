package bolt

import (
	"io"
	"log/slog"
	"os"
	"path/filepath"

	mqtt "github.com/mochi-mqtt/server/v2"
	"go.etcd.io/bbolt"
)

var _ = filepath.Join

// vFreshConfig: options naming a fresh, empty database of this back end (native replay only)
func vFreshConfig() *Options {
	dir, err := os.MkdirTemp("", "verif-bolt-")
	if err != nil {
		panic(err)
	}
	return &Options{Path: filepath.Join(dir, "bolt.db")}
}

// VerifNewHook: under the symbolic engine a hook whose database handle is a placeholder (every call the
// package makes on it is served by the engine's abstract store); natively (replay) a hook on a real, fresh
// database of this back end. For direct use; a hook that goes into a server comes from VerifAddNewHook.
func VerifNewHook() *Hook {
	if vNative() {
		h := new(Hook)
		h.SetOpts(slog.New(slog.NewTextHandler(io.Discard, nil)), nil)
		if err := h.Init(vFreshConfig()); err != nil {
			panic(err)
		}
		return h
	}
	return &Hook{config: &Options{Bucket: "mochi"}, db: new(bbolt.DB)}
}

// VerifAddNewHook adds a storage hook to s: Server.AddHook calls Init, which the engine stubs (the placeholder
// handle stays) and which natively opens the fresh database named by the config.
func VerifAddNewHook(s *mqtt.Server) *Hook {
	if vNative() {
		h := new(Hook)
		if err := s.AddHook(h, vFreshConfig()); err != nil {
			panic(err)
		}
		return h
	}
	h := VerifNewHook()
	_ = s.AddHook(h, nil)
	return h
}

// VerifShareStore: hook dst opens the same database as src (a restarted broker)
func VerifShareStore(dst, src *Hook) { dst.db = src.db }
