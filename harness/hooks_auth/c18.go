package auth

import (
	mqtt "github.com/mochi-mqtt/server/v2"
	"github.com/mochi-mqtt/server/v2/packets"
)

// reference: level-by-level matching as the statement words it for ledger rule filters
func rLevels(s string) []string {
	var out []string
	start := 0
	for i := 0; i <= len(s); i++ {
		if i == len(s) || s[i] == '/' {
			out = append(out, s[start:i])
			start = i + 1
		}
	}
	return out
}

func rMatch(filter, topic string) bool {
	fl, tl := rLevels(filter), rLevels(topic)
	for i, f := range fl {
		if f == "#" && i == len(fl)-1 {
			return len(tl) > i // one or more further levels
		}
		if i >= len(tl) {
			return false
		}
		if f != "+" && f != tl[i] {
			return false
		}
	}
	return len(fl) == len(tl)
}

func rValid(f string) bool {
	if len(f) == 0 {
		return false
	}
	lv := rLevels(f)
	for i, l := range lv {
		for j := 0; j < len(l); j++ {
			if (l[j] == '#' && (len(l) != 1 || i != len(lv)-1)) || (l[j] == '+' && len(l) != 1) {
				return false
			}
		}
	}
	return true
}

// C18(a): MatchTopic agrees with level-by-level matching
func VerifC18Match() {
	f := vStrIn(1+vLen(vParam("F", 4)-1), "/+#ab")
	vAssume(rValid(f))
	t := vStrIn(1+vLen(vParam("T", 4)-1), "/ab")
	_, got := MatchTopic(f, t)
	want := rMatch(f, t)
	vObserveBool("got", got)
	vAssert("matches-only-level-by-level", !got || want)
	vAssert("matches-all-level-by-level", !want || got)
	vReach("end")
}

func vClient(id, user string) *mqtt.Client {
	cl := &mqtt.Client{ID: id}
	cl.Properties.Username = []byte(user)
	cl.Net.Remote = "10.0.0.1"
	return cl
}

// C18(b): for a fixed ledger, client and topic the decision is the same on every evaluation
// (Go randomises map iteration: every order of every map with <= 3 entries is explored)
func VerifC18Deterministic() {
	filters := []RString{"a/b", "a/+", "x"}
	acc := func() Access { return Access(vByteIn("\x00\x01\x02\x03")) }
	l := &Ledger{Users: Users{}}
	// a user with 2 ACL entries
	ua := Filters{}
	ua[filters[vChoose(3)]] = acc()
	ua[filters[vChoose(3)]] = acc()
	l.Users["u"] = UserRule{Username: "u", Password: "p", ACL: ua}
	// two global rules with 2 filters each
	for i := 0; i < vParam("RULES", 1); i++ {
		fs := Filters{}
		fs[filters[vChoose(3)]] = acc()
		fs[filters[vChoose(3)]] = acc()
		l.ACL = append(l.ACL, ACLRule{Filters: fs})
	}
	user := "u"
	if vBool() {
		user = "other"
	}
	cl := vClient("c1", user)
	write := vBool()
	_, r1 := l.ACLOk(cl, "a/b", write)
	_, r2 := l.ACLOk(cl, "a/b", write)
	if user == "u" && len(ua) == 2 {
		vAssert("kf-user-acl-with-overlapping-filters-depends-on-map-order", r1 == r2)
	}
	vAssert("acl-decision-is-deterministic", r1 == r2)
	vReach("end")
}

// C18(c): global rules are consulted in list order, the first matching rule decides; a user's own rules
// take precedence; connect decisions likewise
func VerifC18RuleOrder() {
	l := &Ledger{Users: Users{}}
	allow := [2]bool{vBool(), vBool()}
	match := [2]bool{vBool(), vBool()}
	for i := 0; i < 2; i++ {
		r := AuthRule{Allow: allow[i]}
		if !match[i] {
			r.Client = "nobody"
		}
		l.Auth = append(l.Auth, r)
	}
	hasUser := vBool()
	disallow := vBool()
	if hasUser {
		l.Users["u"] = UserRule{Username: "u", Password: "p", Disallow: disallow}
	}
	cl := vClient("c1", "u")
	_, ok := l.AuthOk(cl, packets.Packet{Connect: packets.ConnectParams{Password: []byte("p")}})
	_, ok2 := l.AuthOk(cl, packets.Packet{Connect: packets.ConnectParams{Password: []byte("p")}})
	vAssert("auth-decision-is-deterministic", ok == ok2)
	want := false
	switch {
	case hasUser:
		want = !disallow
	case match[0]:
		want = allow[0]
	case match[1]:
		want = allow[1]
	}
	vAssert("users-own-rule-first-then-first-matching-global-rule", ok == want)
	// ACL rule order
	la := &Ledger{}
	acc := [2]Access{Access(vByteIn("\x00\x01\x02\x03")), Access(vByteIn("\x00\x01\x02\x03"))}
	am := [2]bool{vBool(), vBool()}
	for i := 0; i < 2; i++ {
		r := ACLRule{Filters: Filters{"a/b": acc[i]}}
		if !am[i] {
			r.Client = "nobody"
		}
		la.ACL = append(la.ACL, r)
	}
	write := vBool()
	_, got := la.ACLOk(cl, "a/b", write)
	permits := func(a Access) bool {
		if write {
			return a == WriteOnly || a == ReadWrite
		}
		return a == ReadOnly || a == ReadWrite
	}
	wantACL := true // no matching rule: the ledger allows
	if am[0] {
		wantACL = permits(acc[0])
	} else if am[1] {
		wantACL = permits(acc[1])
	}
	vAssert("first-matching-acl-rule-decides", got == wantACL)
	vReach("end")
}
