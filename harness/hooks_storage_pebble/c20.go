package pebble

import (
	mqtt "github.com/mochi-mqtt/server/v2"
	"github.com/mochi-mqtt/server/v2/packets"
)

// C20/C21/C22 harness for the pebble back end. The storage engine and encoding/json are replaced by the
// abstract key->record map of the symbolic engine (see engine/storage.go); everything this package
// does above that line runs for real.

func vStoreClient(id string) *mqtt.Client {
	cl := &mqtt.Client{ID: id}
	cl.Net.Listener = "t1"
	cl.Net.Remote = "10.0.0.1"
	return cl
}

func vIDStr(n int) string { return vStrIn(n, ":_/a") }

// field fidelity: what the broker hands to the hook is what Stored* gives back
func VerifC20Fields() {
	h := VerifNewHook()
	cl := vStoreClient("c" + vIDStr(vLen(2)))
	cl.Properties.ProtocolVersion = vByteIn("\x03\x04\x05")
	cl.Properties.Clean = vBool()
	cl.Properties.Username = []byte("u")
	cl.Properties.Props.SessionExpiryInterval = vU32()
	cl.Properties.Props.SessionExpiryIntervalFlag = vBool()
	cl.Properties.Props.ReceiveMaximum = vU16()
	cl.Properties.Props.TopicAliasMaximum = vU16()
	cl.Properties.Props.MaximumPacketSize = vU32()
	cl.Properties.Props.RequestProblemInfo = vByteIn("\x00\x01")
	cl.Properties.Props.RequestProblemInfoFlag = vBool()
	cl.Properties.Will = mqtt.Will{TopicName: "w", Payload: []byte{1}, Qos: vByteIn("\x00\x01\x02"), Retain: vBool(), Flag: 1, WillDelayInterval: vU32()}
	h.OnSessionEstablished(cl, packets.Packet{})
	cs, err := h.StoredClients()
	vAssert("stored-clients-readable", err == nil && len(cs) == 1)
	if len(cs) == 1 {
		c := cs[0]
		vAssert("client-id-restored", c.ID == cl.ID)
		vAssert("client-protocol-version-restored", c.ProtocolVersion == cl.Properties.ProtocolVersion)
		vAssert("client-clean-flag-restored", c.Clean == cl.Properties.Clean)
		vAssert("client-session-expiry-interval-restored", c.Properties.SessionExpiryInterval == cl.Properties.Props.SessionExpiryInterval)
		vAssert("client-session-expiry-flag-restored", c.Properties.SessionExpiryIntervalFlag == cl.Properties.Props.SessionExpiryIntervalFlag)
		vAssert("client-receive-maximum-restored", c.Properties.ReceiveMaximum == cl.Properties.Props.ReceiveMaximum)
		vAssert("client-topic-alias-maximum-restored", c.Properties.TopicAliasMaximum == cl.Properties.Props.TopicAliasMaximum)
		vAssert("client-maximum-packet-size-restored", c.Properties.MaximumPacketSize == cl.Properties.Props.MaximumPacketSize)
		vAssert("client-will-restored", c.Will.TopicName == "w" && c.Will.Qos == cl.Properties.Will.Qos && c.Will.Retain == cl.Properties.Will.Retain && c.Will.WillDelayInterval == cl.Properties.Will.WillDelayInterval && c.Will.Flag == 1)
	}
	// subscription with all options
	sub := packets.Subscription{Filter: "f" + vIDStr(vLen(2)), Qos: vByteIn("\x00\x01\x02"), Identifier: vRange(0, 268435455), NoLocal: vBool(), RetainAsPublished: vBool(), RetainHandling: vByteIn("\x00\x01\x02")}
	h.OnSubscribed(cl, packets.Packet{Filters: packets.Subscriptions{sub}}, []byte{sub.Qos})
	ss, err := h.StoredSubscriptions()
	vAssert("stored-subscriptions-readable", err == nil && len(ss) == 1)
	if len(ss) == 1 {
		s := ss[0]
		vAssert("subscription-restored", s.Client == cl.ID && s.Filter == sub.Filter && s.Qos == sub.Qos && s.Identifier == sub.Identifier && s.NoLocal == sub.NoLocal && s.RetainAsPublished == sub.RetainAsPublished && s.RetainHandling == sub.RetainHandling)
	}
	// retained and in-flight message with properties
	pk := packets.Packet{FixedHeader: packets.FixedHeader{Type: packets.Publish, Qos: vByteIn("\x00\x01\x02"), Retain: true}, TopicName: "t" + vIDStr(vLen(1)), Payload: vBytes(vLen(2)), PacketID: vU16(), Origin: "o", Created: vI64(), Expiry: vI64(), ProtocolVersion: vByteIn("\x00\x04\x05")}
	pk.Properties.MessageExpiryInterval = vU32()
	pk.Properties.PayloadFormat = vByteIn("\x00\x01")
	pk.Properties.PayloadFormatFlag = vBool()
	pk.Properties.ContentType = "ct"
	pk.Properties.ResponseTopic = "rt"
	pk.Properties.CorrelationData = []byte{9}
	pk.Properties.User = []packets.UserProperty{{Key: "k", Val: "v"}}
	h.OnRetainMessage(cl, pk, 1)
	rs, err := h.StoredRetainedMessages()
	vAssert("stored-retained-readable", err == nil && len(rs) == 1)
	if len(rs) == 1 {
		p := rs[0].ToPacket()
		vAssert("retained-topic-payload-restored", p.TopicName == pk.TopicName && string(p.Payload) == string(pk.Payload) && p.FixedHeader.Retain && p.FixedHeader.Qos == pk.FixedHeader.Qos)
		vAssert("retained-properties-restored", p.Properties.ContentType == "ct" && p.Properties.ResponseTopic == "rt" && len(p.Properties.CorrelationData) == 1 && len(p.Properties.User) == 1 && p.Properties.PayloadFormat == pk.Properties.PayloadFormat)
		vAssert("retained-created-restored", p.Created == pk.Created)
		vAssert("retained-message-expiry-interval-restored", p.Properties.MessageExpiryInterval == pk.Properties.MessageExpiryInterval)
		vAssert("retained-payload-format-flag-restored", p.Properties.PayloadFormatFlag == pk.Properties.PayloadFormatFlag)
		vAssert("kf-expiry-time-and-protocol-version-not-stored", p.Expiry == pk.Expiry && p.ProtocolVersion == pk.ProtocolVersion)
		vAssert("retained-expiry-behaviour-restored", p.Expiry == pk.Expiry && p.ProtocolVersion == pk.ProtocolVersion)
	}
	h.OnQosPublish(cl, pk, pk.Created, 0)
	is, err := h.StoredInflightMessages()
	vAssert("stored-inflight-readable", err == nil && len(is) == 1)
	if len(is) == 1 {
		p := is[0].ToPacket()
		vAssert("inflight-client-restored", is[0].Client == cl.ID)
		vAssert("inflight-packet-id-restored", p.PacketID == pk.PacketID)
		vAssert("inflight-message-restored", p.TopicName == pk.TopicName && string(p.Payload) == string(pk.Payload) && p.FixedHeader.Qos == pk.FixedHeader.Qos && p.Created == pk.Created)
	}
	vReach("end")
}

// record independence: several records of one kind, the first rich in optional properties and the others
// plain, come back each with exactly its own content - nothing of one record shows up in another (the Stored*
// loops decode many records in a row)
func VerifC20Independent() {
	h := VerifNewHook()
	c1, c2 := vStoreClient("a"), vStoreClient("b")
	c1.Properties.Username = []byte("u")
	c1.Properties.Props.ReceiveMaximum = 1 + vU16()/2
	c1.Properties.Props.SessionExpiryInterval = 1 + vU32()/2
	c1.Properties.Props.SessionExpiryIntervalFlag = true
	c1.Properties.Will = mqtt.Will{TopicName: "w", Payload: []byte{1}, Qos: 1, Retain: true, Flag: 1, WillDelayInterval: 5}
	h.OnSessionEstablished(c1, packets.Packet{})
	h.OnSessionEstablished(c2, packets.Packet{})
	rich := packets.Packet{FixedHeader: packets.FixedHeader{Type: packets.Publish, Qos: 1, Retain: true}, TopicName: "a", Payload: []byte{1}, PacketID: 3, Origin: "o", Created: 5}
	rich.Properties.MessageExpiryInterval = 1 + vU32()/2
	rich.Properties.PayloadFormat, rich.Properties.PayloadFormatFlag = 1, true
	rich.Properties.ContentType, rich.Properties.ResponseTopic = "ct", "rt"
	rich.Properties.CorrelationData = []byte{9}
	rich.Properties.User = []packets.UserProperty{{Key: "k", Val: "v"}}
	plain := packets.Packet{FixedHeader: packets.FixedHeader{Type: packets.Publish, Qos: 1, Retain: true}, TopicName: "b", Payload: []byte{2}, PacketID: 4, Created: 6}
	h.OnRetainMessage(c1, rich, 1)
	h.OnRetainMessage(c1, plain, 1)
	h.OnQosPublish(c1, rich, 5, 0)
	h.OnQosPublish(c1, plain, 6, 0)
	h.OnSubscribed(c1, packets.Packet{Filters: packets.Subscriptions{{Filter: "a", Qos: 1, Identifier: 7, NoLocal: true, RetainAsPublished: true, RetainHandling: 2}}}, []byte{1})
	h.OnSubscribed(c1, packets.Packet{Filters: packets.Subscriptions{{Filter: "b"}}}, []byte{0})
	isPlain := func(m packets.Packet) bool {
		pr := m.Properties
		return pr.MessageExpiryInterval == 0 && !pr.PayloadFormatFlag && pr.PayloadFormat == 0 && pr.ContentType == "" && pr.ResponseTopic == "" && len(pr.CorrelationData) == 0 && len(pr.User) == 0 && m.Origin == ""
	}
	rs, _ := h.StoredRetainedMessages()
	vAssert("two-retained-records", len(rs) == 2)
	for _, r := range rs {
		if r.TopicName == "b" {
			vAssert("plain-retained-message-restored-without-foreign-properties", isPlain(r.ToPacket()) && len(r.Payload) == 1 && r.Payload[0] == 2)
		}
	}
	is, _ := h.StoredInflightMessages()
	vAssert("two-inflight-records", len(is) == 2)
	for _, r := range is {
		if r.TopicName == "b" {
			vAssert("plain-inflight-message-restored-without-foreign-properties", isPlain(r.ToPacket()) && r.PacketID == 4)
		}
	}
	ss, _ := h.StoredSubscriptions()
	vAssert("two-subscription-records", len(ss) == 2)
	for _, x := range ss {
		if x.Filter == "b" {
			vAssert("plain-subscription-restored-without-foreign-options", x.Identifier == 0 && !x.NoLocal && !x.RetainAsPublished && x.RetainHandling == 0 && x.Qos == 0)
		}
	}
	cs, _ := h.StoredClients()
	vAssert("two-client-records", len(cs) == 2)
	for _, x := range cs {
		if x.ID == "b" {
			vAssert("plain-client-restored-without-foreign-properties", len(x.Username) == 0 && x.Properties.ReceiveMaximum == 0 && x.Properties.SessionExpiryInterval == 0 && !x.Properties.SessionExpiryIntervalFlag && x.Will.Flag == 0 && x.Will.TopicName == "")
		}
	}
	vReach("end")
}

// key injectivity: two different (client id, filter) pairs, or (client id, packet id) pairs, never share a
// storage key, for identifiers containing the separator characters
func VerifC20Keys() {
	h := VerifNewHook()
	id1, id2 := vIDStr(1+vLen(2)), vIDStr(1+vLen(2))
	f1, f2 := vIDStr(1+vLen(2)), vIDStr(1+vLen(2))
	vAssume(id1 != id2 || f1 != f2)
	h.OnSubscribed(vStoreClient(id1), packets.Packet{Filters: packets.Subscriptions{{Filter: f1}}}, []byte{0})
	h.OnSubscribed(vStoreClient(id2), packets.Packet{Filters: packets.Subscriptions{{Filter: f2}}}, []byte{0})
	ss, _ := h.StoredSubscriptions()
	if id1+":"+f1 == id2+":"+f2 {
		// recorded class: exactly the pairs whose "<id>:<filter>" concatenations coincide
		vAssert("kf-subscription-key-id-colon-filter-not-injective", len(ss) == 2)
	}
	vAssert("two-subscriptions-two-records", len(ss) == 2)
	vReach("end")
}

func VerifC20KeysClients() {
	h := VerifNewHook()
	id1, id2 := vIDStr(1+vLen(2)), vIDStr(1+vLen(2))
	vAssume(id1 != id2)
	h.OnSessionEstablished(vStoreClient(id1), packets.Packet{})
	h.OnSessionEstablished(vStoreClient(id2), packets.Packet{})
	h.OnRetainMessage(vStoreClient(id1), packets.Packet{TopicName: id1, Payload: []byte{1}}, 1)
	h.OnRetainMessage(vStoreClient(id1), packets.Packet{TopicName: id2, Payload: []byte{1}}, 1)
	cs, _ := h.StoredClients()
	rs, _ := h.StoredRetainedMessages()
	vAssert("two-clients-two-records", len(cs) == 2)
	vAssert("two-retained-topics-two-records", len(rs) == 2)
	ss, _ := h.StoredSubscriptions()
	is, _ := h.StoredInflightMessages()
	vAssert("no-record-of-one-kind-read-as-another", len(ss) == 0 && len(is) == 0)
	vReach("end")
}

// restart: broker A runs a small history, broker B is started on the same store
func VerifC20Restart() {
	a := mqtt.New(nil)
	_ = a.AddHook(new(mqtt.VerifAllowHook), nil)
	ha := VerifAddNewHook(a)
	ver := byte(vConcrete(int(vByteIn("\x04\x05")), 4, 5))
	c1 := mqtt.VerifDial(a, ver, "c1", false, 300)
	if vBool() {
		mqtt.VerifSend(c1, mqtt.VerifSubscribeBytes(2, "t", 1, ver))
	} else {
		// the same subscription granted in a SUBSCRIBE whose first filter is refused (invalid filter)
		mqtt.VerifSend(c1, mqtt.VerifSubscribe2Bytes(2, "a/#/b", "t", 1, ver))
	}
	mqtt.VerifSend(c1, mqtt.VerifPublishBytes("r", 7, 0, 0, true, ver))
	// a QoS 1 message for c1 stays unacknowledged
	pub := mqtt.VerifDial(a, 4, "pub", true, 0)
	mqtt.VerifSend(pub, mqtt.VerifPublishBytes("t", 8, 1, 5, false, 4))
	crash := vParam("CRASH", 0) == 1
	if crash {
		// C21: the process dies between any two storage writes
		n := vKVLogLen()
		k := vLen(n)
		vKVCrash(k)
	} else {
		mqtt.VerifHangup(c1)
	}
	b := mqtt.New(nil)
	_ = b.AddHook(new(mqtt.VerifAllowHook), nil)
	hb := VerifAddNewHook(b)
	VerifShareStore(hb, ha)
	err := b.Serve()
	vAssert("restarted-broker-starts", err == nil)
	if crash {
		vReach("crashed")
		return
	}
	cl, ok := b.Clients.Get("c1")
	vAssert("session-restored", ok)
	if ok {
		vAssert("restored-session-protocol-version", cl.Properties.ProtocolVersion == ver)
		if ver == 5 {
			vAssert("restored-session-expiry-interval", cl.Properties.Props.SessionExpiryInterval == 300)
			vAssert("restored-session-expiry-flag", cl.Properties.Props.SessionExpiryIntervalFlag)
		}
		_, has := cl.State.Subscriptions.Get("t")
		vAssert("restored-session-has-its-subscription", has)
		vAssert("kf-restored-inflight-message-lost-or-misfiled", cl.State.Inflight.Len() == 1)
		vAssert("restored-session-has-its-inflight-message", cl.State.Inflight.Len() == 1)
	}
	subs := b.Topics.Subscribers("t")
	_, routed := subs.Subscriptions["c1"]
	vAssert("restored-subscription-routes", routed)
	rp, rok := b.Topics.Retained.Get("r")
	vAssert("retained-message-restored", rok && len(rp.Payload) == 1 && rp.Payload[0] == 7)
	_, ghost := b.Clients.Get("pub")
	vAssert("clean-session-not-restored", !ghost)
	vReach("end")
}

// resume then restart: a persistent session with QoS 2 exchanges at solver-chosen stages reconnects (its session
// is inherited: the stored in-flight records are deleted and written again), then the broker restarts. What
// broker B restores must be what broker A held in memory when it stopped.
func VerifC20Resume() {
	a := mqtt.New(nil)
	_ = a.AddHook(new(mqtt.VerifAllowHook), nil)
	ha := VerifAddNewHook(a)
	ver := byte(vConcrete(int(vByteIn("\x04\x05")), 4, 5))
	c1 := mqtt.VerifDial(a, ver, "c1", false, 300)
	mqtt.VerifSend(c1, mqtt.VerifSubscribeBytes(2, "t", 2, ver))
	pub := mqtt.VerifDial(a, 4, "pub", true, 0)
	if vBool() { // an outbound QoS 2 message, left at PUBLISH or taken to PUBREL by the client's PUBREC
		mqtt.VerifSend(pub, mqtt.VerifPublishBytes("t", 8, 2, 5, false, 4))
		mqtt.VerifSend(pub, []byte{0x62, 2, 0, 5})
		if vBool() {
			mqtt.VerifSend(c1, []byte{0x50, 2, 0, 1})
		}
	}
	if vBool() { // an outbound QoS 1 message
		mqtt.VerifSend(pub, mqtt.VerifPublishBytes("t", 9, 1, 6, false, 4))
	}
	if vBool() { // an inbound QoS 2 publish from c1, answered with PUBREC and awaiting PUBREL
		mqtt.VerifSend(c1, mqtt.VerifPublishBytes("x", 3, 2, 9, false, ver))
	}
	before := mqtt.VerifInflight(a, "c1")
	// the session is resumed: by a takeover of the live connection or after a hang-up
	if vBool() {
		mqtt.VerifHangup(c1)
	}
	c1 = mqtt.VerifDial(a, ver, "c1", false, 300)
	held := mqtt.VerifInflight(a, "c1")
	vAssert("resumed-session-keeps-its-inflight-records", len(held) == len(before))
	mqtt.VerifHangup(c1)
	b := mqtt.New(nil)
	_ = b.AddHook(new(mqtt.VerifAllowHook), nil)
	hb := VerifAddNewHook(b)
	VerifShareStore(hb, ha)
	err := b.Serve()
	vAssert("restarted-broker-starts", err == nil)
	got := mqtt.VerifInflight(b, "c1")
	same := len(got) == len(held)
	for i := range got {
		if i < len(held) && got[i] != held[i] {
			same = false
		}
	}
	vAssert("restored-inflight-records-are-those-held-when-the-broker-stopped", same)
	vReach("end")
}

// C21: the process may die between any two storage writes (the crash index ranges over the whole write
// log of the path). What was acknowledged to a client before the crash must be there after the restart;
// a Clean Start 1 connection must not receive anything because of discarded sessions; writes issued for
// a superseded connection must not delete the live session's state.
func VerifC21Crash() {
	a := mqtt.New(nil)
	_ = a.AddHook(new(mqtt.VerifAllowHook), nil)
	ha := VerifAddNewHook(a)
	ver := byte(vConcrete(int(vByteIn("\x04\x05")), 4, 5))
	// a clean-session client subscribes and leaves: nothing of it may come back
	k1 := mqtt.VerifDial(a, ver, "k", true, 0)
	mqtt.VerifSend(k1, mqtt.VerifSubscribeBytes(2, "t", 0, ver))
	mqtt.VerifHangup(k1)
	cleanGone := vKVLogLen()
	// a persistent session subscribes (SUBACK is the acknowledgement)
	c1 := mqtt.VerifDial(a, ver, "c1", false, 300)
	if vBool() {
		mqtt.VerifSend(c1, mqtt.VerifSubscribeBytes(2, "t", 1, ver))
	} else {
		mqtt.VerifSend(c1, mqtt.VerifSubscribe2Bytes(2, "a/#/b", "t", 1, ver)) // granted after a refused filter
	}
	subAcked := vKVLogLen()
	// a publisher sends a retained QoS 1 message (PUBACK is the acknowledgement)
	pub := mqtt.VerifDial(a, 4, "pub", true, 0)
	mqtt.VerifSend(pub, mqtt.VerifPublishBytes("r", 7, 1, 5, true, 4))
	retAcked := vKVLogLen()
	// and a QoS 1 message that c1 must receive; c1 does not acknowledge it
	mqtt.VerifSend(pub, mqtt.VerifPublishBytes("t", 8, 1, 6, false, 4))
	msgStored := vKVLogLen()
	takeover := vBool()
	if takeover {
		// a second connection takes the live session over (Clean Start 0): the unacknowledged message moves with it
		_ = mqtt.VerifDial(a, ver, "c1", false, 300)
	}
	n := vKVLogLen()
	k := vLen(n)
	vKVCrash(k)
	b := mqtt.New(nil)
	_ = b.AddHook(new(mqtt.VerifAllowHook), nil)
	hb := VerifAddNewHook(b)
	VerifShareStore(hb, ha)
	err := b.Serve()
	vAssert("restarted-broker-starts", err == nil)
	if k >= subAcked {
		subs := b.Topics.Subscribers("t")
		_, routed := subs.Subscriptions["c1"]
		vAssert("acknowledged-subscription-survives-the-crash", routed)
	}
	if k >= retAcked {
		rp, ok := b.Topics.Retained.Get("r")
		vAssert("acknowledged-retained-message-survives-the-crash", ok && len(rp.Payload) == 1 && rp.Payload[0] == 7)
	}
	if k >= msgStored {
		cl, ok := b.Clients.Get("c1")
		if takeover && k < n {
			// recorded class: during a takeover the superseded connection's ClearInflights deletes the stored
			// in-flight keys of the (same-id) live session before the new connection re-stores them
			vAssert("kf-crash-during-takeover-loses-the-sessions-inflight-message", ok && cl.State.Inflight.Len() == 1)
		}
		vAssert("unacknowledged-inflight-message-survives-the-crash", ok && cl.State.Inflight.Len() == 1)
	}
	_ = cleanGone
	{
		// wherever the crash fell: a Clean Start 1 connection with the clean session's id gets nothing because of it
		k2 := mqtt.VerifDial(b, ver, "k", true, 0)
		before := len(mqtt.VerifWritten(k2))
		pb := mqtt.VerifDial(b, 4, "pub2", true, 0)
		mqtt.VerifSend(pb, mqtt.VerifPublishBytes("t", 9, 0, 0, false, 4))
		vAssert("clean-start-connection-receives-nothing-from-a-discarded-session", len(mqtt.VerifWritten(k2)) == before)
	}
	vReach("end")
}
