package listeners

import (
	"bytes"
	"io"
	"log/slog"
	"net"
	"net/http"
	"net/http/httptest"
	"strings"
	"time"

	"github.com/gorilla/websocket"
)

// C39: the WebSocket transport is byte-transparent.
//
// Under the engine the two entry points of gorilla/websocket that wsConn uses, (*Conn).NextReader and
// (*Conn).WriteMessage, are replaced by vStubWsNextReader / vStubWsWriteMessage below (engine redirect table):
// the peer is a scripted list of messages, each delivered by a reader with the contract of gorilla's
// messageReader (at most the rest of the current frame per Read, io.EOF with n == 0 once the message is used
// up; after the last message NextReader reports a close error). Natively (replay) the same harness runs over a
// real gorilla connection through the listener's own upgrade handler on a loopback httptest server.

type vWsMsg struct {
	op    int
	data  []byte
	frame int // 0: one frame; k > 0: the message is fragmented into frames of k bytes
}

type vWsPeer struct {
	ws      *wsConn
	msgs    []vWsMsg // what the client sends
	next    int
	written []vWsMsg // engine: what wsConn wrote
	client  *websocket.Conn
	srv     *httptest.Server
	release chan struct{}
	done    bool
}

var vWsPeers []*vWsPeer

func vWsPeerOf(c *websocket.Conn) *vWsPeer {
	for _, p := range vWsPeers {
		if p.ws.c == c {
			return p
		}
	}
	panic("verif: unknown websocket connection")
}

type vWsReader struct {
	data  []byte
	frame int
}

func (r *vWsReader) Read(b []byte) (int, error) {
	if len(r.data) == 0 {
		return 0, io.EOF
	}
	n := len(b)
	if n > len(r.data) {
		n = len(r.data)
	}
	if r.frame > 0 && n > r.frame {
		n = r.frame
	}
	copy(b, r.data[:n])
	r.data = r.data[n:]
	return n, nil
}

func vStubWsNextReader(c *websocket.Conn) (int, io.Reader, error) {
	p := vWsPeerOf(c)
	if p.next >= len(p.msgs) {
		return -1, nil, &websocket.CloseError{Code: websocket.CloseNormalClosure}
	}
	m := p.msgs[p.next]
	p.next++
	return m.op, &vWsReader{data: m.data, frame: m.frame}, nil
}

func vStubWsWriteMessage(c *websocket.Conn, op int, data []byte) error {
	p := vWsPeerOf(c)
	p.written = append(p.written, vWsMsg{op: op, data: append([]byte(nil), data...)})
	return nil
}

// vWsServerConn: the broker-side wsConn of a WebSocket connection whose client sends msgs and then closes.
func vWsServerConn(msgs []vWsMsg) *wsConn {
	p := &vWsPeer{msgs: msgs}
	if vNative() {
		l := &Websocket{id: "ws", upgrader: &websocket.Upgrader{Subprotocols: []string{"mqtt"}, CheckOrigin: func(r *http.Request) bool { return true }}, log: slog.New(slog.NewTextHandler(io.Discard, nil))}
		got := make(chan *wsConn, 1)
		p.release = make(chan struct{})
		l.establish = func(id string, c net.Conn) error {
			got <- c.(*wsConn)
			<-p.release
			return nil
		}
		p.srv = httptest.NewServer(http.HandlerFunc(l.handler))
		// fragmentation: the client library cuts messages into frames of its write buffer size
		dialer := &websocket.Dialer{}
		for _, m := range msgs {
			if m.frame > 0 {
				dialer.WriteBufferSize = m.frame
				break
			}
		}
		cl, _, err := dialer.Dial("ws"+strings.TrimPrefix(p.srv.URL, "http"), nil)
		if err != nil {
			panic(err)
		}
		p.client = cl
		for _, m := range msgs {
			if err := cl.WriteMessage(m.op, m.data); err != nil {
				panic(err)
			}
		}
		_ = cl.WriteControl(websocket.CloseMessage, websocket.FormatCloseMessage(websocket.CloseNormalClosure, ""), time.Now().Add(time.Second))
		p.ws = <-got
	} else {
		p.ws = &wsConn{Conn: vConn(), c: new(websocket.Conn)}
	}
	vWsPeers = append(vWsPeers, p)
	return p.ws
}

// vWsReplies: the messages the client received, once the broker side is closed.
func vWsReplies(ws *wsConn) []vWsMsg {
	p := vWsPeerOf(ws.c)
	if vNative() {
		var out []vWsMsg
		_ = p.client.SetReadDeadline(time.Now().Add(5 * time.Second))
		for {
			op, data, err := p.client.ReadMessage()
			if err != nil {
				break
			}
			out = append(out, vWsMsg{op: op, data: data})
		}
		if !p.done {
			p.done = true
			close(p.release)
			p.client.Close()
			p.srv.Close()
		}
		return out
	}
	return p.written
}

func vWsWant(msgs []vWsMsg) (want []byte, bad int) {
	bad = -1
	for i, m := range msgs {
		if m.op != websocket.BinaryMessage {
			bad = i
			break
		}
		want = append(want, m.data...)
	}
	return
}

// VerifC39Read: for every list of messages (type, length, bytes, fragmentation) and every sequence of read
// buffer sizes, the bytes wsConn.Read hands out are exactly the concatenation of the binary messages' bytes, in
// order, up to the first non-binary message, which is reported as ErrInvalidMessage; no byte is lost, repeated
// or invented at message boundaries.
func VerifC39Read() {
	nm := vLen(vParam("MSGS", 2))
	maxLen := vParam("LEN", 2)
	var msgs []vWsMsg
	for i := 0; i < nm; i++ {
		m := vWsMsg{op: []int{websocket.BinaryMessage, websocket.TextMessage}[vChoose(2)], data: vBytes(vLen(maxLen)), frame: vLen(vParam("FRAME", 1))}
		msgs = append(msgs, m)
	}
	want, bad := vWsWant(msgs)
	ws := vWsServerConn(msgs)
	var got []byte
	reads := 1 // enough reads for one-byte buffers: every read takes a byte, ends a message or fails
	for _, m := range msgs {
		reads += len(m.data) + 1
	}
	rest := 1 + vLen(maxLen) // after two arbitrary buffer sizes, one more arbitrary size for all later reads
	ended := false
	for k := 0; k < reads+2 && !ended; k++ {
		size := rest
		if k < 2 {
			size = vLen(maxLen + 1)
		}
		p := make([]byte, size)
		n, err := ws.Read(p)
		vAssert("read-count-within-buffer", n >= 0 && n <= len(p))
		got = append(got, p[:n]...)
		vAssert("bytes-read-are-a-prefix-of-the-bytes-sent", len(got) <= len(want) && bytes.Equal(got, want[:len(got)]))
		if err != nil {
			ended = true
			vAssert("no-bytes-with-an-error", n == 0)
			vAssert("every-byte-sent-before-the-end-was-read", bytes.Equal(got, want))
			if bad >= 0 {
				vAssert("non-binary-message-reported-as-invalid", err == ErrInvalidMessage)
			} else {
				vAssert("binary-messages-never-reported-invalid", err != ErrInvalidMessage)
			}
		}
	}
	vAssert("stream-ends-within-the-read-budget", ended)
	_ = ws.Close()
	_ = vWsReplies(ws)
	vReach("end")
}

// VerifC39Write: every Write is one binary message carrying exactly the bytes given, reported as fully written.
func VerifC39Write() {
	ws := vWsServerConn(nil)
	k := vLen(vParam("WRITES", 3))
	var want [][]byte
	for i := 0; i < k; i++ {
		p := vBytes(vLen(vParam("LEN", 3)))
		n, err := ws.Write(p)
		vAssert("write-reports-all-bytes", n == len(p) && err == nil)
		want = append(want, p)
	}
	_ = ws.Close()
	rep := vWsReplies(ws)
	vAssert("one-message-per-write", len(rep) == len(want))
	for i := range rep {
		if i < len(want) {
			vAssert("reply-is-a-binary-message", rep[i].op == websocket.BinaryMessage)
			vAssert("reply-bytes-intact", bytes.Equal(rep[i].data, want[i]))
		}
	}
	vReach("end")
}

// ---- for the broker-level harness in the root package ----

// VerifWsConn: the broker side of a WebSocket connection whose client sends the given binary messages (a
// text message where text[i]) and then closes.
func VerifWsConn(parts [][]byte, text []bool) net.Conn {
	var msgs []vWsMsg
	for i, b := range parts {
		op := websocket.BinaryMessage
		if i < len(text) && text[i] {
			op = websocket.TextMessage
		}
		msgs = append(msgs, vWsMsg{op: op, data: b})
	}
	return vWsServerConn(msgs)
}

// VerifWsReplies: the bytes of the binary messages the client received, and whether all were binary.
func VerifWsReplies(c net.Conn) ([]byte, bool) {
	var out []byte
	ok := true
	for _, m := range vWsReplies(c.(*wsConn)) {
		if m.op != websocket.BinaryMessage {
			ok = false
		}
		out = append(out, m.data...)
	}
	return out, ok
}
