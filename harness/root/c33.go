package mqtt

// C33: concurrent broker operation is free of data races.
//
// The scenario runs the goroutines the real broker runs: one connection handler per client (attachClient
// with its WriteLoop), and one housekeeping goroutine that does what the event loop does on its tickers
// (publishSysTopics, clearExpiredClients, clearExpiredRetainedMessages, sendDelayedLWT, clearExpiredInflights).
// The harness only plays the clients (bytes in, bytes out) and starts the housekeeping rounds; it never touches
// broker memory itself. The engine records every load and store of the interpreted broker code with vector
// clocks and reports two accesses to the same location, one of them a write, that no synchronisation orders
// (engine/race.go). The traffic is chosen by the solver: which steps happen, protocol versions, clean start,
// wills, session expiry; housekeeping rounds run concurrently with the traffic that follows them.
func VerifC33Scenario() {
	caps := NewDefaultServerCapabilities()
	caps.MaximumMessageExpiryInterval = 100
	s, _ := vNewServer(&Options{Capabilities: caps, InlineClient: vParam("INLINE", 0) == 1})
	verA := byte(vConcrete(int(vByteIn("\x04\x05")), 4, 5))
	verB := byte(vConcrete(int(vByteIn("\x04\x05")), 4, 5))
	now := vNow()
	hk := func() {
		go func() {
			s.publishSysTopics()
			s.clearExpiredClients(now + 1000)
			s.clearExpiredRetainedMessages(now + 1000)
			s.sendDelayedLWT(now + 1000)
			s.clearExpiredInflights(now + 1000)
		}()
	}
	a := vDial(s, vConnOpts{ver: verA, id: "a", clean: vBool(), keepalive: 60, will: true, willTopic: "w", willQos: 1, willDelay: 5, seiSet: verA == 5, sei: 30, rm: 5})
	b := vDial(s, vConnOpts{ver: verB, id: "b", clean: false, keepalive: 60, seiSet: verB == 5, sei: 30, rm: 1})
	vSend(b, vSubscribeBytes(1, "t", 1, verB))
	vSend(b, vSubscribeBytes(2, "w", 1, verB))
	steps := vParam("STEPS", 3)
	aLive, bLive := true, true
	for i := 0; i < steps; i++ {
		if vBool() {
			hk() // a housekeeping round runs concurrently with the next step
		}
		switch vChoose(6) {
		case 0: // a publishes (QoS 1, maybe retained) to b's subscription
			if aLive {
				vConnFeed(a, vPublishBytes("t", byte(i), 1, uint16(10+i), vBool(), verA))
			}
		case 1: // b acknowledges its first message
			if bLive {
				vConnFeed(b, []byte{0x40, 2, 0, 1})
			}
		case 2: // a's connection is lost (will, session kept or not)
			if aLive {
				vConnEOF(a)
				aLive = false
			}
		case 3: // b is taken over by a new connection with the same id
			if bLive {
				b = vDial(s, vConnOpts{ver: verB, id: "b", clean: false, keepalive: 60, seiSet: verB == 5, sei: 30, rm: 1})
			}
		case 4: // b disconnects normally and comes back
			if bLive {
				vConnFeed(b, vDisconnectBytes(verB, 0, false))
				bLive = false
			} else {
				b = vDial(s, vConnOpts{ver: verB, id: "b", clean: false, keepalive: 60, seiSet: verB == 5, sei: 30, rm: 1})
				bLive = true
			}
		case 5: // the embedding application publishes
			if vParam("INLINE", 0) == 1 {
				_ = s.Publish("t", []byte{9}, false, 1)
			}
		}
		vDrain()
	}
	hk()
	vDrain()
	vReach("end")
}
