package mqtt

import (
	"net"

	"github.com/mochi-mqtt/server/v2/packets"
)

// C33: concurrent broker operation is free of data races.
//
// The scenario runs the goroutines the real broker runs: one connection handler per client (attachClient
// with its WriteLoop), one housekeeping goroutine doing what the event loop does on its tickers
// (publishSysTopics, clearExpiredClients, clearExpiredRetainedMessages, sendDelayedLWT, clearExpiredInflights),
// and the embedding application's goroutine using the inline API. The harness only plays the clients (bytes
// in) and starts those goroutines; it never touches broker memory itself. The engine records every load and
// store of the interpreted broker code with vector clocks and reports two accesses to the same location, one
// of them a write, that no synchronisation orders (engine/race.go).
//
// Set-up (sequential): client a (with a delayed will) and client b (persistent, subscribed to t and w) are
// connected; solver-chosen pre-state: a offline (its delayed will pending), b holding an unacknowledged
// message, a retained message present. Then ACTS activities chosen by the solver from the menu below are
// started together and run concurrently under the scheduling budget.
func VerifC33Pair() {
	caps := NewDefaultServerCapabilities()
	caps.MaximumMessageExpiryInterval = 100
	s, _ := vNewServer(&Options{Capabilities: caps, InlineClient: true})
	verA := byte(vConcrete(int(vByteIn("\x04\x05")), 4, 5))
	verB := byte(vConcrete(int(vByteIn("\x04\x05")), 4, 5))
	now := vNow()
	vSchedBudget(0, 0)
	optsA := vConnOpts{ver: verA, id: "a", clean: false, keepalive: 60, will: true, willTopic: "w", willQos: 1, willDelay: 5, seiSet: verA == 5, sei: 30, rm: 5}
	optsB := vConnOpts{ver: verB, id: "b", clean: false, keepalive: 60, seiSet: verB == 5, sei: 30, rm: 2}
	a := vDial(s, optsA)
	b := vDial(s, optsB)
	vSend(b, vSubscribeBytes(1, "t", 1, verB))
	vSend(b, vSubscribeBytes(2, "w", 1, verB))
	vSend(b, vSubscribeBytes(5, "$share/g/t", 1, verB)) // b is also a member of a share group on t
	aLive := true
	if vBool() { // b holds an unacknowledged message; a retained message exists
		vSend(a, vPublishBytes("t", 1, 1, 10, true, verA))
	}
	if vBool() { // a is offline, its delayed will pending
		vHangup(a)
		aLive = false
	}
	hk := func(t int64) {
		s.publishSysTopics()
		s.clearExpiredClients(t)
		s.clearExpiredRetainedMessages(t)
		s.sendDelayedLWT(t)
		s.clearExpiredInflights(t)
	}
	var late []net.Conn
	vSchedBudget(vParam("PRE", 0), vParam("SCH", 1))
	acts := vParam("ACTS", 2)
	used := map[int]bool{}
	// MENU: bit mask of the activities to choose from (0: all 14)
	var menu []int
	for k := 0; k < 14; k++ {
		if m := vParam("MENU", 0); m == 0 || (m>>uint(k))&1 == 1 {
			menu = append(menu, k)
		}
	}
	for i := 0; i < acts; i++ {
		k := menu[vChoose(len(menu))]
		if used[k] {
			return // each activity at most once per scenario (symmetry)
		}
		used[k] = true
		switch k {
		case 0:
			if aLive {
				vConnFeed(a, vPublishBytes("t", 2, 1, 11, true, verA))
			}
		case 1:
			vConnFeed(b, []byte{0x40, 2, 0, 1})
		case 2: // b subscribes: a new filter, or (again) its share-group membership
			vConnFeed(b, vSubscribeBytes(3, []string{"x/#", "$share/g/t"}[vChoose(2)], 1, verB))
		case 3:
			ub := vU16b(4)
			if verB == 5 {
				ub = append(ub, 0)
			}
			ub = append(ub, vStrb([]string{"t", "$share/g/t"}[vChoose(2)])...) // a plain filter, or leaving the share group
			vConnFeed(b, append([]byte{0xA2, byte(len(ub))}, ub...))
		case 4:
			if aLive {
				vConnFeed(a, vDisconnectBytes(verA, 0, false))
			}
		case 5:
			if aLive {
				vConnEOF(a)
			}
		case 6: // takeover of b by a new connection
			c := vConnLive()
			vConnFeed(c, vConnectBytes(optsB))
			late = append(late, c)
			go func() { _ = s.EstablishConnection("t1", c) }()
		case 7: // a connects again (a takeover if it is live)
			c := vConnLive()
			vConnFeed(c, vConnectBytes(optsA))
			late = append(late, c)
			go func() { _ = s.EstablishConnection("t1", c) }()
		case 8:
			go hk(now + 1000)
		case 9:
			go hk(now)
		case 10:
			go func() { _ = s.Publish("t", []byte{9}, vBool(), 1) }()
		case 11:
			go func() {
				_ = s.Subscribe("t", 1, func(cl *Client, sub packets.Subscription, pk packets.Packet) {})
				_ = s.Unsubscribe("t", 1)
			}()
		case 12:
			go func() { _ = s.Close() }()
		case 13: // a disconnects and changes its session expiry interval with the DISCONNECT (MQTT 5)
			if aLive && verA == 5 {
				vConnFeed(a, []byte{0xE0, 7, 0x00, 5, 0x11, 0, 0, 0, 60})
			}
		}
	}
	vDrain()
	_ = late
	vReach("end")
}
