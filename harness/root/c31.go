package mqtt

import "github.com/mochi-mqtt/server/v2/packets"

// C31: the topic index answers every query as a simple set of subscriptions and map of retained
// messages would after some serial order of the operations; Subscribe/Unsubscribe report whether the
// subscription previously existed; removing empty nodes never drops a live subscription or retained
// message.
var c31Filters = []string{"a", "a/b", "a/+", "a/#", "$share/g/a/b"}
var c31Topics = []string{"a", "a/b", "a/b/c"}

type c31Model struct {
	subs     [2][5]bool // client x filter
	inline   [5]bool    // inline subscription id 7 on filter
	retained [3]bool
}

func (m *c31Model) check(x *TopicsIndex) {
	ids := []string{"c1", "c2"}
	for ti, t := range c31Topics {
		subs := x.Subscribers(t)
		for ci, id := range ids {
			want := false
			for fi := 0; fi < 4; fi++ {
				if m.subs[ci][fi] && refMatch(c31Filters[fi], t) {
					want = true
				}
			}
			_, got := subs.Subscriptions[id]
			vAssert("subscribers-answer-equals-set-model", got == want)
			wantShared := m.subs[ci][4] && refMatch("a/b", t)
			gotShared := false
			if g, ok := subs.Shared[c31Filters[4]]; ok {
				_, gotShared = g[id]
			}
			vAssert("shared-answer-equals-set-model", gotShared == wantShared)
		}
		wantInline := false
		for fi := 0; fi < 4; fi++ {
			if m.inline[fi] && refMatch(c31Filters[fi], t) {
				wantInline = true
			}
		}
		_, gotInline := subs.InlineSubscriptions[7]
		vAssert("inline-answer-equals-set-model", gotInline == wantInline)
		_ = ti
	}
	for fi := 0; fi < 4; fi++ {
		msgs := x.Messages(c31Filters[fi])
		for ti, t := range c31Topics {
			n := 0
			for _, pk := range msgs {
				if pk.TopicName == t {
					n++
				}
			}
			want := 0
			if m.retained[ti] && refMatch(c31Filters[fi], t) {
				want = 1
			}
			vAssert("messages-answer-equals-map-model", n == want)
		}
	}
}

func (m *c31Model) apply(x *TopicsIndex, op, ci, fi, ti int) {
	ids := []string{"c1", "c2"}
	switch op {
	case 0:
		isNew := x.Subscribe(ids[ci], packets.Subscription{Filter: c31Filters[fi]})
		vAssert("subscribe-reports-whether-it-existed", isNew == !m.subs[ci][fi])
		m.subs[ci][fi] = true
	case 1:
		existed := x.Unsubscribe(c31Filters[fi], ids[ci])
		vAssert("unsubscribe-reports-whether-it-existed", existed == m.subs[ci][fi])
		m.subs[ci][fi] = false
	case 2:
		if fi < 4 {
			x.InlineSubscribe(InlineSubscription{Subscription: packets.Subscription{Filter: c31Filters[fi], Identifier: 7}, Handler: vNopInline})
			m.inline[fi] = true
		}
	case 3:
		if fi < 4 {
			x.InlineUnsubscribe(7, c31Filters[fi])
			m.inline[fi] = false
		}
	case 4:
		x.RetainMessage(vRetainPk(c31Topics[ti], true))
		m.retained[ti] = true
	case 5:
		x.RetainMessage(vRetainPk(c31Topics[ti], false))
		m.retained[ti] = false
	}
}

func VerifC31Sequential() {
	x := NewTopicsIndex()
	var m c31Model
	steps := vParam("STEPS", 3)
	for i := 0; i < steps; i++ {
		m.apply(x, vChoose(6), vChoose(2), vChoose(vParam("NF", 5)), vChoose(vParam("NT", 3)))
		m.check(x)
	}
	if vParam("ANY", 0) == 0 {
		vReach("end")
		return
	}
	// and for EVERY topic / filter (symbolic strings), not only the ones used by the history
	t := vC01Topic(vParam("T", 3))
	subs := x.Subscribers(t)
	for ci, id := range []string{"c1", "c2"} {
		want := false
		for fi := 0; fi < 4; fi++ {
			if m.subs[ci][fi] && refMatch(c31Filters[fi], t) {
				want = true
			}
		}
		_, got := subs.Subscriptions[id]
		vAssert("subscribers-answer-equals-set-model-for-any-topic", got == want)
	}
	f := vC01Filter(1 + vLen(vParam("F", 3)-1))
	msgs := x.Messages(f)
	for ti, tt := range c31Topics {
		n := 0
		for _, pk := range msgs {
			if pk.TopicName == tt {
				n++
			}
		}
		want := 0
		if m.retained[ti] && refMatch(f, tt) {
			want = 1
		}
		vAssert("messages-answer-equals-map-model-for-any-filter", n == want)
	}
	vAssert("nothing-else-returned", len(msgs) <= 3)
	vReach("end")
}

// one mutator and one reader run as goroutines; the reader's answer must equal the model before or after
// the mutation (linearizability of one overlapping pair), for every interleaving at the lock operations
// within the pre-emption bound
func VerifC31Concurrent() {
	x := NewTopicsIndex()
	var m c31Model
	// a little pre-state
	m.apply(x, 0, 0, 3, 0) // c1 subscribed to a/#
	m.apply(x, 4, 0, 0, 1) // a/b retained
	op, ci, fi, ti := vChoose(6), 0, []int{1, 3, 4}[vChoose(3)], 1+vChoose(2)
	before := m
	topic := "a/b"
	filter := "a/#"
	var gotSubs *Subscribers
	var gotMsgs []packets.Packet
	done := make(chan bool, 2)
	go func() {
		m.apply(x, op, ci, fi, ti)
		done <- true
	}()
	go func() {
		gotSubs = x.Subscribers(topic)
		gotMsgs = x.Messages(filter)
		done <- true
	}()
	<-done
	<-done
	after := m
	// the reader's two answers must each be explained by the state before or after the mutation
	ok := func(mm *c31Model) (bool, bool) {
		s1 := true
		for ci2, id := range []string{"c1", "c2"} {
			want := false
			for f := 0; f < 4; f++ {
				if mm.subs[ci2][f] && refMatch(c31Filters[f], topic) {
					want = true
				}
			}
			_, got := gotSubs.Subscriptions[id]
			if got != want {
				s1 = false
			}
		}
		s2 := true
		for t2, t := range c31Topics {
			n := 0
			for _, pk := range gotMsgs {
				if pk.TopicName == t {
					n++
				}
			}
			want := 0
			if mm.retained[t2] && refMatch(filter, t) {
				want = 1
			}
			if n != want {
				s2 = false
			}
		}
		return s1, s2
	}
	b1, b2 := ok(&before)
	a1, a2 := ok(&after)
	vAssert("concurrent-subscribers-answer-is-before-or-after", b1 || a1)
	vAssert("concurrent-messages-answer-is-before-or-after", b2 || a2)
	m.check(x)
	vReach("end")
}

// two mutators on different elements of the same region of the trie run as goroutines (a retained message set
// or cleared on a topic; a client or inline subscription added or removed on a filter over it): whatever the
// interleaving at the lock operations within the pre-emption bound, the index afterwards answers as the model
// with both operations applied (they commute in the model)
func VerifC31Writers() {
	x := NewTopicsIndex()
	var m c31Model
	// pre-state chosen so that removals prune: c2 holds the filter that may be removed, a/b may be retained
	fi := []int{1, 2, 3}[vChoose(3)]
	if vBool() {
		m.apply(x, 0, 1, fi, 0)
	}
	ti := vChoose(2)
	if vBool() {
		m.apply(x, 4, 0, 0, ti)
	}
	op1 := 4 + vChoose(2) // retain set / clear on topic ti
	op2 := vChoose(4)     // subscribe / unsubscribe (c2) / inline subscribe / inline unsubscribe on filter fi
	done := make(chan bool, 2)
	var m1, m2 c31Model
	m1, m2 = m, m
	go func() {
		m1.apply(x, op1, 0, 0, ti)
		done <- true
	}()
	go func() {
		m2.apply(x, op2, 1, fi, 0)
		done <- true
	}()
	<-done
	<-done
	// the two operations touch different elements of the model: merge their effects
	m.retained = m1.retained
	m.subs, m.inline = m2.subs, m2.inline
	m.check(x)
	vReach("end")
}
