package mqtt

import "github.com/mochi-mqtt/server/v2/packets"

// C37: keepalive K>0 arms a deadline 1.5*K seconds ahead (margin K/4 as in the statement's rounding),
// K=0 disables it, and the deadline is re-armed before every packet read.
func VerifC37Deadline() {
	s, _ := vNewServer(nil)
	cl, c := vNewClient(s, "c1", 4)
	k := vU16()
	cl.refreshDeadline(k)
	vAssert("one-deadline-set", vConnDeadlines(c) == 1)
	d := vConnDeadlineNs(c, 0)
	vObserve("deadline-ns", uint64(d))
	if k == 0 {
		vAssert("zero-keepalive-disables-timeout", d == -1)
		vReach("disabled")
		return
	}
	K := int64(k) * 1000000000
	vAssert("deadline-not-before-1.5K", 2*d >= 3*K)
	vAssert("deadline-not-after-1.75K", 4*d <= 7*K)
	vReach("armed")
}

// the keepalive the client asked for is the one used, and every read re-arms it
func VerifC37Rearm() {
	s, _ := vNewServer(nil)
	cl, c := vNewClient(s, "c1", 4)
	k := vU16()
	vAssume(k > 0)
	cl.ParseConnect("t1", packets.Packet{ProtocolVersion: 4, Connect: packets.ConnectParams{Keepalive: k, ClientIdentifier: "c1"}})
	vAssert("keepalive-copied", cl.State.Keepalive == k)
	n := vLen(2)
	for i := 0; i < n; i++ {
		vConnFeed(c, []byte{0xC0, 0x00}) // PINGREQ
	}
	handled := 0
	_ = cl.Read(func(cl *Client, pk packets.Packet) error { handled++; return nil })
	vAssert("all-packets-handled", handled == n)
	// (how often the deadline is re-armed is the implementation's business; that it is far enough ahead whenever
	// the connection waits is VerifC37Partial's assertion)
	vAssert("deadline-armed", vConnDeadlines(c) >= 1)
	for i := 1; i < vConnDeadlines(c); i++ {
		// every re-armed deadline is the same distance ahead as the first (whose value VerifC37Deadline decides)
		vAssert("rearmed-deadline-same-distance", vConnDeadlineNs(c, i) == vConnDeadlineNs(c, 0))
	}
	vReach("end")
}

// VerifC37Partial: the inactivity limit counts from the last packet received, also when the bytes that follow
// it in the same segment are only the beginning of the next packet. The connection reads a PINGREQ that arrives
// A seconds after the previous read together with the first byte of another one; while it waits for the rest,
// the deadline in force must lie at least 1.5 x K after that PINGREQ's arrival.
func VerifC37Partial() {
	s, _ := vNewServer(nil)
	c := vConnLive()
	cl := s.NewClient(c, "t1", "c1", false)
	k := []uint16{10, 60}[vChoose(2)]
	cl.ParseConnect("t1", packets.Packet{ProtocolVersion: 4, Connect: packets.ConnectParams{Keepalive: k, ClientIdentifier: "c1"}})
	handled := 0
	go func() { _ = cl.Read(func(cl *Client, pk packets.Packet) error { handled++; return nil }) }()
	vDrain()
	vAssert("deadline-armed-before-the-first-read", vConnDeadlines(c) >= 1)
	vClockAdvance(int64(1 + vChoose(5))) // A seconds of silence, less than 1.5 x K
	tail := vChoose(2)                   // 0: a whole PINGREQ only; 1: plus the first byte of the next packet
	if tail == 0 {
		vConnFeed(c, []byte{0xC0, 0x00})
	} else {
		vConnFeed(c, []byte{0xC0, 0x00, 0xC0})
	}
	vDrain()
	vAssert("packet-handled", handled == 1)
	n := vConnDeadlines(c)
	d := vConnDeadlineNs(c, n-1) // distance of the deadline in force from now (= the arrival of that PINGREQ)
	K := int64(k) * 1000000000
	vAssert("connection-stays-open-1.5K-after-the-last-packet", 2*d >= 3*K)
	vConnEOF(c)
	vDrain()
	vReach("end")
}
