package mqtt

import "github.com/mochi-mqtt/server/v2/packets"

// C37: keepalive K>0 arms a deadline 1.5*K seconds ahead (margin K/4 as in the statement's rounding),
// K=0 disables it, and the deadline is re-armed before every packet read.
func VerifC37Deadline() {
	s, _ := vNewServer(nil)
	cl, c := vNewClient(s, "c1", 4)
	k := vU16()
	cl.refreshDeadline(k)
	vAssert("one-deadline-set", vConnDeadlines(c) == 1)
	d := vConnDeadlineNs(c, 0)
	vObserve("deadline-ns", uint64(d))
	if k == 0 {
		vAssert("zero-keepalive-disables-timeout", d == -1)
		vReach("disabled")
		return
	}
	K := int64(k) * 1000000000
	vAssert("deadline-not-before-1.5K", 2*d >= 3*K)
	vAssert("deadline-not-after-1.75K", 4*d <= 7*K)
	vReach("armed")
}

// the keepalive the client asked for is the one used, and every read re-arms it
func VerifC37Rearm() {
	s, _ := vNewServer(nil)
	cl, c := vNewClient(s, "c1", 4)
	k := vU16()
	vAssume(k > 0)
	cl.ParseConnect("t1", packets.Packet{ProtocolVersion: 4, Connect: packets.ConnectParams{Keepalive: k, ClientIdentifier: "c1"}})
	vAssert("keepalive-copied", cl.State.Keepalive == k)
	n := vLen(2)
	for i := 0; i < n; i++ {
		vConnFeed(c, []byte{0xC0, 0x00}) // PINGREQ
	}
	handled := 0
	_ = cl.Read(func(cl *Client, pk packets.Packet) error { handled++; return nil })
	vAssert("all-packets-handled", handled == n)
	vAssert("deadline-rearmed-before-every-read", vConnDeadlines(c) == n+1)
	for i := 1; i <= n; i++ {
		// every re-armed deadline is the same distance ahead as the first (whose value VerifC37Deadline decides)
		vAssert("rearmed-deadline-same-distance", vConnDeadlineNs(c, i) == vConnDeadlineNs(c, 0))
	}
	vReach("end")
}
