package mqtt

import "github.com/mochi-mqtt/server/v2/packets"

// C17: no client receives a message on a topic its read permission denies; nothing from a client is
// delivered or retained on a topic its write permission denies, including its will and later retained
// replay; denied subscriptions are refused (0x87 / 0x80 obscured) and never deliver; clients cannot
// publish to $SYS; will topics must be valid topic names.
func VerifC17Routes() {
	caps := NewDefaultServerCapabilities()
	caps.Compatibilities.ObscureNotAuthorized = vBool()
	s, h := vNewServer(&Options{Capabilities: caps})
	// permission relation: solver booleans, equal questions get equal answers
	pubWrite := vBool()  // may "pub" write topic t?
	subRead := vBool()   // may "sub" read topic t / subscribe to filter t?
	h.aclDeny = func(cl *Client, topic string, write bool) bool {
		if topic != "t" {
			return false
		}
		if write {
			return cl.ID == "pub" && !pubWrite
		}
		return cl.ID == "sub" && !subRead
	}
	ver := byte(vParam("VER", 5))
	pub, _ := vNewClient(s, "pub", ver)
	sub, sc := vNewClient(s, "sub", 5)
	other, oc := vNewClient(s, "other", 5)
	os := packets.Subscription{Filter: "t", Qos: 0}
	s.Topics.Subscribe("other", os)
	other.State.Subscriptions.Add("t", os)
	// "sub" asks for a subscription
	_ = s.processPacket(sub, packets.Packet{ProtocolVersion: 5, FixedHeader: packets.FixedHeader{Type: packets.Subscribe, Qos: 1}, PacketID: 3, Filters: packets.Subscriptions{{Filter: "t", Qos: 0}}})
	vFlush(sub)
	w := vParseWire(vConnWritten(sc), 5)
	vAssert("suback-written", len(w.Pkts) == 1 && w.Pkts[0].Type == packets.Suback && len(w.Pkts[0].Codes) == 1)
	if len(w.Pkts) == 1 && len(w.Pkts[0].Codes) == 1 {
		code := w.Pkts[0].Codes[0]
		if subRead {
			vAssert("permitted-subscription-granted", code <= 2)
		} else if caps.Compatibilities.ObscureNotAuthorized {
			vAssert("denied-subscription-refused-0x80-when-obscured", code == 0x80)
		} else {
			vAssert("denied-subscription-refused-0x87", code == 0x87)
		}
	}
	if !subRead {
		subs := s.Topics.Subscribers("t")
		_, in := subs.Subscriptions["sub"]
		vAssert("denied-subscription-creates-nothing", !in)
	}
	// the ACL may change after subscribing: model a subscription that exists although read is now denied
	if vBool() {
		s.Topics.Subscribe("sub", packets.Subscription{Filter: "t"})
		sub.State.Subscriptions.Add("t", packets.Subscription{Filter: "t"})
	}
	// "pub" publishes (retained or not)
	retain := vBool()
	q := byte(vConcrete(int(vByteIn("\x00\x01")), 0, 1))
	pk := packets.Packet{ProtocolVersion: ver, FixedHeader: packets.FixedHeader{Type: packets.Publish, Qos: q, Retain: retain}, TopicName: "t", Payload: []byte{1}}
	if q > 0 {
		pk.PacketID = 7
	}
	// an MQTT 5 publisher may bind a topic alias with this publish and then publish through the alias alone
	aliased := ver == 5 && vBool()
	if aliased {
		pk.Properties.TopicAlias, pk.Properties.TopicAliasFlag = 1, true
	}
	_ = s.processPacket(pub, pk)
	nByAlias := 0
	if aliased {
		pk2 := packets.Packet{ProtocolVersion: ver, FixedHeader: packets.FixedHeader{Type: packets.Publish, Qos: 0, Retain: retain}, TopicName: "", Payload: []byte{2}}
		pk2.Properties.TopicAlias, pk2.Properties.TopicAliasFlag = 1, true
		_ = s.processPacket(pub, pk2)
		nByAlias = 1
	}
	vFlush(sub)
	vFlush(other)
	nsub := vCountPublishes(sc, 5, "t")
	noth := vCountPublishes(oc, 5, "t")
	if !pubWrite {
		vAssert("write-denied-publish-not-delivered", nsub == 0 && noth == 0)
		vAssert("write-denied-publish-not-retained", s.Topics.Retained.Len() == 0)
	} else {
		vAssert("permitted-publish-reaches-permitted-subscriber", noth == 1+nByAlias)
	}
	if !subRead {
		vAssert("read-denied-client-receives-nothing", nsub == 0)
	}
	// $SYS
	_ = s.processPacket(pub, packets.Packet{ProtocolVersion: ver, FixedHeader: packets.FixedHeader{Type: packets.Publish, Retain: true}, TopicName: "$SYS/broker/x", Payload: []byte{9}})
	_, sysRetained := s.Topics.Retained.Get("$SYS/broker/x")
	vAssert("client-cannot-publish-to-sys", !sysRetained)
	// retained replay to a later subscriber whose read permission is denied
	if retain && pubWrite && !subRead {
		late, lc := vNewClient(s, "sub", 5) // same identity, new connection object
		late.State.Subscriptions.Add("t", packets.Subscription{Filter: "t"})
		s.publishRetainedToClient(late, packets.Subscription{Filter: "t"}, false)
		vFlush(late)
		vAssert("retained-replay-respects-read-permission", vCountPublishes(lc, 5, "t") == 0)
	}
	vReach("end")
}

// the will: published only if the client may write its topic; the will topic must be a valid topic name
func VerifC17Will() {
	s, h := vNewServer(nil)
	willWrite := vBool()
	h.aclDeny = func(cl *Client, topic string, write bool) bool { return write && cl.ID == "c1" && !willWrite }
	obs := vDial(s, vConnOpts{ver: 5, id: "obs", clean: true, keepalive: 60})
	vSend(obs, vSubscribeBytes(1, "#", 0, 5))
	topics := []string{"w", "w/+", "#", "$SYS/w"}
	ti := vChoose(4)
	ver := byte(vConcrete(int(vByteIn("\x04\x05")), 4, 5))
	var delay uint32
	if ver == 5 && vBool() {
		delay = 5 // a delayed will goes through sendDelayedLWT instead
	}
	c1 := vDial(s, vConnOpts{ver: ver, id: "c1", clean: delay == 0, keepalive: 60, will: true, willTopic: topics[ti], willRet: vBool(), willDelay: delay, seiSet: delay > 0, sei: 100})
	vHangup(c1)
	s.sendDelayedLWT(vNow() + 10)
	vDrain()
	w := vParseWire(vConnWritten(obs), 5)
	n := 0
	for _, p := range w.Pkts {
		if p.Type == packets.Publish {
			n++
		}
	}
	if ti != 0 {
		vAssert("invalid-will-topic-never-published", n == 0 && s.Topics.Retained.Len() == 0)
	} else if !willWrite {
		vAssert("write-denied-will-not-published-or-retained", n == 0 && s.Topics.Retained.Len() == 0)
	} else {
		vAssert("permitted-will-published", n == 1)
	}
	vReach("end")
}
