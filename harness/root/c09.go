package mqtt

import "github.com/mochi-mqtt/server/v2/packets"

func vConnectClient(s *Server, id string, ver byte, clean bool, rm uint16) (*Client, packets.Packet, bool) {
	c := vConn()
	cl := s.NewClient(c, "t1", id, false)
	cpk := packets.Packet{ProtocolVersion: ver, Connect: packets.ConnectParams{ClientIdentifier: id, Keepalive: 60, Clean: clean}, Properties: packets.Properties{ReceiveMaximum: rm}}
	cl.ParseConnect("t1", cpk)
	present := s.inheritClientSession(cpk, cl)
	s.Clients.Add(cl)
	return cl, cpk, present
}

// C09: QoS 1/2 messages queued for a session stay until acknowledged and are redelivered on every
// reconnection with the session present: same packet id, DUP set; PUBREL instead of PUBLISH after
// PUBREC; acknowledged messages are never resent.
func VerifC09Redeliver() {
	s, _ := vNewServer(nil)
	R := uint16(1 + vChoose(2))
	cl, _, _ := vConnectClient(s, "c1", 5, false, R)
	c := cl.Net.Conn
	sub := packets.Subscription{Filter: "t", Qos: 2}
	s.Topics.Subscribe("c1", sub)
	cl.State.Subscriptions.Add("t", sub)
	n := vParam("MSGS", 2)
	qos := make([]byte, n)
	for i := 0; i < n; i++ {
		qos[i] = vByteIn("\x01\x02")
		s.publishToSubscribers(packets.Packet{FixedHeader: packets.FixedHeader{Type: packets.Publish, Qos: qos[i]}, TopicName: "t", Payload: []byte{byte(1 + i)}, Origin: "pub"})
	}
	vFlush(cl)
	// model of the session as the CLIENT sees it: id -> state (1 = PUBLISH received unacknowledged, 2 = PUBREC sent)
	state := map[uint16]int{}
	pay := map[uint16]byte{}
	sync := func() {
		w := vParseWire(vConnWritten(c), 5)
		for _, p := range w.Pkts {
			if p.Type == packets.Publish && p.HasID && len(p.Payload) == 1 {
				if _, ok := pay[p.ID]; !ok {
					pay[p.ID] = p.Payload[0]
					state[p.ID] = 1
				}
			}
		}
	}
	sync()
	// some acknowledgement steps chosen by the solver
	steps := vLen(vParam("ACKS", 2))
	for k := 0; k < steps; k++ {
		for id, st := range state {
			if st == 0 {
				continue
			}
			q := qos[pay[id]-1]
			switch {
			case q == 1:
				_ = s.processPacket(cl, packets.Packet{ProtocolVersion: 5, FixedHeader: packets.FixedHeader{Type: packets.Puback}, PacketID: id})
				state[id] = 0
			case st == 1:
				_ = s.processPacket(cl, packets.Packet{ProtocolVersion: 5, FixedHeader: packets.FixedHeader{Type: packets.Pubrec}, PacketID: id})
				state[id] = 2
			default:
				_ = s.processPacket(cl, packets.Packet{ProtocolVersion: 5, FixedHeader: packets.FixedHeader{Type: packets.Pubcomp}, PacketID: id})
				state[id] = 0
			}
			break
		}
		vFlush(cl)
		sync()
	}
	// invariant: what was written and is unacknowledged has an in-flight record
	for id, st := range state {
		if st != 0 {
			_, ok := cl.State.Inflight.Get(id)
			// recorded class: only messages that had been held back by flow control (published when the quota was
			// used up: the (R+1)th and later ones of the initial burst) and were released by the deferred-send path
			held := int(pay[id]) > int(R)
			vAssert("kf-message-released-from-flow-control-queue-keeps-its-inflight-record", ok || !held)
			vAssert("written-unacknowledged-message-has-inflight-record", ok)
		}
	}
	// the connection drops and the client reconnects with the session, RECON times without acknowledging anything
	prev := cl
	var w vWire
	for r := 0; r < vParam("RECON", 2); r++ {
		prev.Stop(nil)
		cl2, _, present := vConnectClient(s, "c1", 5, false, 8)
		vAssert("session-present", present)
		_ = cl2.ResendInflightMessages(true)
		vFlush(cl2)
		w = vParseWire(vConnWritten(cl2.Net.Conn), 5)
		vAssert("resend-transcript-parses", w.Trailing == 0)
		if vParam("WF", 0) == 1 {
			vAssertWellFormed(w, 5, 0) // C23: what is resent is well-formed (fixed header flags of PUBREL, DUP only on PUBLISH)
		}
		for id, st := range state {
			npub, nrel := 0, 0
			for _, p := range w.Pkts {
				if p.HasID && p.ID == id {
					if p.Type == packets.Publish {
						npub++
						vAssert("redelivery-sets-dup", p.Flags&8 != 0)
						vAssert("redelivery-has-original-payload", len(p.Payload) == 1 && p.Payload[0] == pay[id])
					}
					if p.Type == packets.Pubrel {
						nrel++
					}
				}
			}
			switch st {
			case 0:
				vAssert("acknowledged-message-never-resent", npub == 0 && nrel == 0)
			case 1:
				vAssert("unacknowledged-publish-redelivered-once-with-original-id", npub == 1 && nrel == 0)
			case 2:
				vAssert("after-pubrec-pubrel-is-resent-not-publish", npub == 0 && nrel == 1)
			}
		}
		prev = cl2
	}
	// messages never written (still deferred) must also survive: every message is either acknowledged,
	// known to the client, or sent now
	for i := 0; i < n; i++ {
		known := false
		for _, b := range pay {
			if b == byte(1+i) {
				known = true
			}
		}
		if !known {
			got := 0
			for _, p := range w.Pkts {
				if p.Type == packets.Publish && len(p.Payload) == 1 && p.Payload[0] == byte(1+i) {
					got++
				}
			}
			vAssert("deferred-message-delivered-after-reconnect", got == 1)
		}
	}
	vReach("end")
}
