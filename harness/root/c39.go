package mqtt

import (
	"bytes"

	"github.com/mochi-mqtt/server/v2/listeners"
	"github.com/mochi-mqtt/server/v2/packets"
)

// vC39Hook records which packets the broker processed, in order.
type vC39Hook struct {
	HookBase
	seen []byte
}

func (h *vC39Hook) ID() string           { return "verif-c39" }
func (h *vC39Hook) Provides(b byte) bool { return b == OnPacketProcessed || b == OnACLCheck || b == OnConnectAuthenticate }
func (h *vC39Hook) OnConnectAuthenticate(cl *Client, pk packets.Packet) bool { return true }
func (h *vC39Hook) OnACLCheck(cl *Client, topic string, write bool) bool     { return true }
func (h *vC39Hook) OnPacketProcessed(cl *Client, pk packets.Packet, err error) {
	e := byte(0)
	if err != nil {
		e = 1
	}
	h.seen = append(h.seen, pk.FixedHeader.Type, byte(pk.PacketID), e)
}

// VerifC39Broker: the same MQTT byte stream (CONNECT, SUBSCRIBE, QoS 1 PUBLISH, PINGREQ) is given to the real
// connection handler once over a plain connection and once through the WebSocket wsConn, cut into binary
// messages at solver-chosen places (MODE 0: two cuts anywhere, the second up to 3 bytes after the first; MODE 1:
// every message the same size 1..3; MODE 2: one cut and a text message in the middle). The broker must process
// the same packets and the client must receive the same reply bytes, all in binary messages; a text message ends
// the connection: nothing after it is processed.
func VerifC39Broker() {
	ver := vByteIn("\x04\x05")
	var stream []byte
	stream = append(stream, vConnectBytes(vConnOpts{ver: ver, id: "c", clean: true})...)
	stream = append(stream, vSubscribeBytes(1, "a", 1, ver)...)
	stream = append(stream, vPublishBytes("b", vByte(), 1, 2, false, ver)...)
	stream = append(stream, 0xC0, 0x00)
	mode := vParam("MODE", 0)
	var parts [][]byte
	var text []bool
	through := len(stream) // bytes that reach the broker before the connection ends
	switch mode {
	case 0:
		c1 := vLen(len(stream))
		c2 := c1 + vLen(3)
		if c2 > len(stream) {
			c2 = len(stream)
		}
		parts = [][]byte{stream[:c1], stream[c1:c2], stream[c2:]}
	case 1:
		sz := 1 + vChoose(3)
		for i := 0; i < len(stream); i += sz {
			j := i + sz
			if j > len(stream) {
				j = len(stream)
			}
			parts = append(parts, stream[i:j])
		}
	case 2:
		c1 := vLen(len(stream))
		parts = [][]byte{stream[:c1], {'x'}, stream[c1:]}
		text = []bool{false, true, false}
		through = c1
	}

	// over a plain connection: the bytes that arrive before the connection ends
	s1 := New(nil)
	h1 := new(vC39Hook)
	_ = s1.AddHook(h1, nil)
	c := vConn()
	vConnFeed(c, stream[:through])
	_ = s1.EstablishConnection("t1", c)
	vDrain()
	tcpOut := vConnWritten(c)

	s2 := New(nil)
	h2 := new(vC39Hook)
	_ = s2.AddHook(h2, nil)
	ws := listeners.VerifWsConn(parts, text)
	_ = s2.EstablishConnection("ws1", ws)
	vDrain()
	_ = ws.Close()
	wsOut, allBinary := listeners.VerifWsReplies(ws)

	vAssert("same-packets-processed-as-over-tcp", bytes.Equal(h1.seen, h2.seen))
	vAssert("replies-arrive-in-binary-messages", allBinary)
	vAssert("same-reply-bytes-as-over-tcp", bytes.Equal(tcpOut, wsOut))
	if mode != 2 {
		// CONNECT is handled by the connection handler itself; the three packets after it go through the hook
		vAssert("all-packets-after-connect-processed", len(h2.seen) == 9)
	}
	vReach("end")
}
