package mqtt

import "github.com/mochi-mqtt/server/v2/packets"

// C04: delivered QoS = min(published QoS, highest QoS among the matching subscriptions, server maximum);
// SUBACK grants min(requested, server maximum); the delivered message carries exactly the subscription
// identifiers of the matching subscriptions that have one; the retain flag is cleared on live delivery
// unless the (MQTT 5) subscription asked for Retain As Published.
func vMin3(a, b, c byte) byte {
	m := a
	if b < m {
		m = b
	}
	if c < m {
		m = c
	}
	return m
}

func VerifC04Deliver() {
	ver := byte(vParam("VER", 5))
	caps := NewDefaultServerCapabilities()
	caps.MaximumQos = vByteIn("\x00\x01\x02")
	s, _ := vNewServer(&Options{Capabilities: caps})
	cl, c := vNewClient(s, "c1", ver)
	// two overlapping subscriptions (a/b and a/+), each present or not, via the real SUBSCRIBE handler
	filters := []string{"a/b", "a/+"}
	var on [2]bool
	var q [2]byte
	var ident [2]int
	var rap [2]bool
	for i := 0; i < 2; i++ {
		on[i] = vBool()
		q[i] = vByteIn("\x00\x01\x02")
		ident[i] = vChoose(3) // 0 = none
		rap[i] = vBool()
	}
	vAssume(on[0] || on[1])
	sp := packets.Packet{ProtocolVersion: ver, FixedHeader: packets.FixedHeader{Type: packets.Subscribe, Qos: 1}, PacketID: 9}
	for i := 0; i < 2; i++ {
		if on[i] {
			sub := packets.Subscription{Filter: filters[i], Qos: q[i], Identifier: ident[i]}
			if ver == 5 {
				sub.RetainAsPublished = rap[i]
			}
			sp.Filters = append(sp.Filters, sub)
		}
	}
	_ = s.processPacket(cl, sp)
	vFlush(cl)
	w := vParseWire(vConnWritten(c), ver)
	vAssert("suback-written", len(w.Pkts) == 1 && w.Pkts[0].Type == packets.Suback && len(w.Pkts[0].Codes) == len(sp.Filters))
	k := 0
	for i := 0; i < 2; i++ {
		if on[i] && len(w.Pkts) == 1 && k < len(w.Pkts[0].Codes) {
			want := q[i]
			if want > caps.MaximumQos {
				want = caps.MaximumQos
			}
			vAssert("suback-grants-min-of-requested-and-server-maximum", w.Pkts[0].Codes[k] == want)
			k++
		}
	}
	// a live publish from another client
	pq := vByteIn("\x00\x01\x02")
	retain := vBool()
	s.publishToSubscribers(packets.Packet{ProtocolVersion: 5, FixedHeader: packets.FixedHeader{Type: packets.Publish, Qos: pq, Retain: retain}, TopicName: "a/b", Payload: []byte{1}, Origin: "other"})
	vFlush(cl)
	w = vParseWire(vConnWritten(c), ver)
	var pubs []vPkt
	for _, p := range w.Pkts {
		if p.Type == packets.Publish {
			pubs = append(pubs, p)
		}
	}
	vAssert("exactly-one-copy", len(pubs) == 1)
	if len(pubs) != 1 {
		return
	}
	p := pubs[0]
	maxSub := byte(0)
	for i := 0; i < 2; i++ {
		if on[i] && q[i] > maxSub {
			maxSub = q[i]
		}
	}
	vAssert("delivered-qos-is-min-of-publish-subscription-server", (p.Flags>>1)&3 == vMin3(pq, maxSub, caps.MaximumQos))
	if ver == 5 {
		// identifiers: exactly those of the matching subscriptions that have one (as a set)
		// one identifier per matching subscription that has one (a multiset: two subscriptions may use the same value)
		var want []int
		for i := 0; i < 2; i++ {
			if on[i] && ident[i] > 0 {
				want = append(want, ident[i])
			}
		}
		vAssert("subscription-identifier-count", len(p.SubIDs) == len(want))
		for _, x := range want {
			nw, ng := 0, 0
			for _, y := range want {
				if x == y {
					nw++
				}
			}
			for _, y := range p.SubIDs {
				if x == y {
					ng++
				}
			}
			vAssert("subscription-identifier-present", nw == ng)
		}
		// retain flag: cleared unless RAP; asserted when all matching subscriptions agree on RAP
		if (!on[0] || !on[1]) || rap[0] == rap[1] {
			r := rap[0]
			if !on[0] {
				r = rap[1]
			}
			vAssert("retain-flag-follows-retain-as-published", (p.Flags&1 == 1) == (retain && r))
		}
	} else {
		vAssert("v3-live-delivery-clears-retain", p.Flags&1 == 0)
		vAssert("v3-no-subscription-identifiers", len(p.SubIDs) == 0)
	}
	vReach("end")
}

// VerifC04Resubscribe: a subscription replaced by a second SUBSCRIBE on the same filter (different QoS,
// identifier, Retain As Published) is the one in force afterwards - also after the session is resumed by a new
// connection (the index is rebuilt from the session then) - through the real connection handler.
func VerifC04Resubscribe() {
	s, _ := vNewServer(nil)
	ver := byte(5)
	q1, q2 := vByteIn("\x00\x01\x02"), vByteIn("\x00\x01\x02")
	id1, id2 := 1+vChoose(2), 1+vChoose(2)
	sub := func(id uint16, q byte, ident int, rap bool) []byte {
		// SUBSCRIBE v5 with a subscription identifier property: [id][props: 0x0B ident]["a"][options]
		opts := q
		if rap {
			opts |= 0x08
		}
		b := append(vU16b(id), 2, 0x0B, byte(ident))
		b = append(b, vStrb("a")...)
		b = append(b, opts)
		return append([]byte{packets.Subscribe<<4 | 2, byte(len(b))}, b...)
	}
	rap1, rap2 := vBool(), vBool()
	c := vDial(s, vConnOpts{ver: ver, id: "c1", clean: false, keepalive: 60, seiSet: true, sei: 100, rm: 10})
	vSend(c, sub(1, q1, id1, rap1))
	vSend(c, sub(2, q2, id2, rap2))
	if vBool() {
		// the session is resumed by a new connection (takeover, or after a hang-up)
		if vBool() {
			vHangup(c)
		}
		c = vDial(s, vConnOpts{ver: ver, id: "c1", clean: false, keepalive: 60, seiSet: true, sei: 100, rm: 10})
		vReach("resumed")
	}
	before := len(vParseWire(vConnWritten(c), ver).Pkts)
	pq := vByteIn("\x00\x01\x02")
	retain := vBool()
	pub := vDial(s, vConnOpts{ver: 5, id: "pub", clean: true, keepalive: 60})
	vSend(pub, vPublishBytes("a", 7, pq, 5, retain, 5))
	w := vParseWire(vConnWritten(c), ver)
	var pubs []vPkt
	for _, p := range w.Pkts[before:] {
		if p.Type == packets.Publish {
			pubs = append(pubs, p)
		}
	}
	vAssert("exactly-one-copy", len(pubs) == 1)
	if len(pubs) != 1 {
		return
	}
	p := pubs[0]
	want := pq
	if q2 < want {
		want = q2
	}
	vAssert("delivered-qos-follows-the-replacing-subscription", (p.Flags>>1)&3 == want)
	vAssert("identifier-of-the-replacing-subscription", len(p.SubIDs) == 1 && p.SubIDs[0] == id2)
	vAssert("retain-flag-follows-the-replacing-subscription", (p.Flags&1 == 1) == (retain && rap2))
	vReach("end")
}
