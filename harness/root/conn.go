package mqtt

import (
	"net"

	"github.com/mochi-mqtt/server/v2/packets"
)

// vConnectBytes: a CONNECT packet on the wire (reference encoding), used to drive attachClient end to end.
type vConnOpts struct {
	ver       byte
	id        string
	clean     bool
	keepalive uint16
	will      bool
	willTopic string
	willQos   byte
	willRet   bool
	willDelay uint32
	sei       uint32 // session expiry interval (v5); seiSet says whether the property is present
	seiSet    bool
	rm        uint16
	noProblem bool   // Request Problem Information = 0
	mps       uint32 // Maximum Packet Size (0: property absent)
}

func vU16b(v uint16) []byte { return []byte{byte(v >> 8), byte(v)} }
func vU32b(v uint32) []byte { return []byte{byte(v >> 24), byte(v >> 16), byte(v >> 8), byte(v)} }
func vStrb(s string) []byte { return append(vU16b(uint16(len(s))), []byte(s)...) }

func vConnectBytes(o vConnOpts) []byte {
	var b []byte
	if o.ver == 3 {
		b = append(b, vStrb("MQIsdp")...)
	} else {
		b = append(b, vStrb("MQTT")...)
	}
	b = append(b, o.ver)
	var flags byte
	if o.clean {
		flags |= 2
	}
	if o.will {
		flags |= 4 | o.willQos<<3
		if o.willRet {
			flags |= 32
		}
	}
	b = append(b, flags)
	b = append(b, vU16b(o.keepalive)...)
	if o.ver == 5 {
		var p []byte
		if o.seiSet {
			p = append(p, 17)
			p = append(p, vU32b(o.sei)...)
		}
		if o.rm > 0 {
			p = append(p, 33)
			p = append(p, vU16b(o.rm)...)
		}
		if o.noProblem {
			p = append(p, 23, 0)
		}
		if o.mps > 0 {
			p = append(p, 39)
			p = append(p, vU32b(o.mps)...)
		}
		b = append(b, byte(len(p)))
		b = append(b, p...)
	}
	b = append(b, vStrb(o.id)...)
	if o.will {
		if o.ver == 5 {
			var p []byte
			if o.willDelay > 0 {
				p = append(p, 24)
				p = append(p, vU32b(o.willDelay)...)
			}
			b = append(b, byte(len(p)))
			b = append(b, p...)
		}
		b = append(b, vStrb(o.willTopic)...)
		b = append(b, vStrb("W")...)
	}
	return append([]byte{packets.Connect << 4, byte(len(b))}, b...)
}

// vDial starts the real connection handler (EstablishConnection -> attachClient) in its own goroutine on
// a live scripted connection and lets it run until it waits for the client's next packet.
func vDial(s *Server, o vConnOpts) net.Conn {
	c := vConnLive()
	vConnFeed(c, vConnectBytes(o))
	go func() { _ = s.EstablishConnection("t1", c) }()
	vDrain()
	return c
}

func vSubscribeBytes(id uint16, filter string, qos byte, ver byte) []byte {
	b := vU16b(id)
	if ver == 5 {
		b = append(b, 0)
	}
	b = append(b, vStrb(filter)...)
	b = append(b, qos)
	return append([]byte{packets.Subscribe<<4 | 2, byte(len(b))}, b...)
}

func vPublishBytes(topic string, payload byte, qos byte, id uint16, retain bool, ver byte) []byte {
	b := vStrb(topic)
	if qos > 0 {
		b = append(b, vU16b(id)...)
	}
	if ver == 5 {
		b = append(b, 0)
	}
	b = append(b, payload)
	h := byte(packets.Publish<<4) | qos<<1
	if retain {
		h |= 1
	}
	return append([]byte{h, byte(len(b))}, b...)
}

func vDisconnectBytes(ver byte, reason byte, withReason bool) []byte {
	if ver == 5 && withReason {
		return []byte{packets.Disconnect << 4, 1, reason}
	}
	return []byte{packets.Disconnect << 4, 0}
}

// vSend feeds bytes to a live connection and lets the broker process them.
func vSend(c net.Conn, b []byte) {
	vConnFeed(c, b)
	vDrain()
}

func vHangup(c net.Conn) {
	vConnEOF(c)
	vDrain()
}

func vCountPublishes(c net.Conn, ver byte, topic string) int {
	w := vParseWire(vConnWritten(c), ver)
	n := 0
	for _, p := range w.Pkts {
		if p.Type == packets.Publish && p.Topic == topic {
			n++
		}
	}
	return n
}
