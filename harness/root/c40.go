package mqtt

import "github.com/mochi-mqtt/server/v2/packets"

// C40: a message published through the embedding API reaches every matching client and inline
// subscription (incl. a trailing '#' matching the parent level); each client subscription gets it at
// min(requested QoS, subscription QoS); an inline subscription first receives the matching retained
// messages, then live ones; unsubscribing one inline subscription stops that identifier only.
func VerifC40Inline() {
	s, _ := vNewServer(&Options{InlineClient: true})
	filters := []string{"a/b", "a/#", "a/+", "#"}
	topics := []string{"a", "a/b"}
	type rec struct {
		id      int
		topic   string
		payload byte
	}
	var got []rec
	handler := func(cl *Client, sub packets.Subscription, pk packets.Packet) {
		p := byte(0)
		if len(pk.Payload) > 0 {
			p = pk.Payload[0]
		}
		got = append(got, rec{sub.Identifier, pk.TopicName, p})
	}
	// a regular client with a subscription of symbolic QoS
	cl, c := vNewClient(s, "c1", 5)
	sq := vByteIn("\x00\x01\x02")
	cs := packets.Subscription{Filter: "a/#", Qos: sq}
	s.Topics.Subscribe("c1", cs)
	cl.State.Subscriptions.Add("a/#", cs)
	// model of inline subscriptions: id -> filter index (-1 none)
	var has [3][4]bool // (identifier, filter) pairs currently subscribed
	steps := vParam("STEPS", 3)
	retainedOnA := false
	for i := 0; i < steps; i++ {
		switch vChoose(5) {
		case 0: // inline subscribe
			id, fi := 1+vChoose(2), vChoose(4)
			before := len(got)
			err := s.Subscribe(filters[fi], id, handler)
			vAssert("inline-subscribe-accepted", err == nil)
			// retained messages first
			wantRet := 0
			if retainedOnA && refMatch(filters[fi], "a") {
				wantRet = 1
			}
			vAssert("inline-subscribe-delivers-matching-retained-messages", len(got)-before == wantRet)
			has[id][fi] = true
		case 1: // inline unsubscribe of (id, filter)
			id, fi := 1+vChoose(2), vChoose(4)
			_ = s.Unsubscribe(filters[fi], id)
			has[id][fi] = false
		case 3: // another (regular) client subscribes to / unsubscribes from one of the same filters
			fi := vChoose(4)
			if vBool() {
				s.Topics.Subscribe("c2", packets.Subscription{Filter: filters[fi]})
			} else {
				s.Topics.Unsubscribe(filters[fi], "c2")
			}
		case 4: // the retained message of a topic is cleared (empty retained publish)
			ti := vChoose(2)
			_ = s.Publish(topics[ti], nil, true, 0)
			if ti == 0 {
				retainedOnA = false
			}
		case 2: // publish through the embedding API
			ti := vChoose(2)
			q := byte(vConcrete(int(vByteIn("\x00\x01\x02")), 0, 2))
			retain := ti == 0 && vBool()
			before := len(got)
			vFlush(cl)
			cb := vCountPublishes(c, 5, topics[ti])
			err := s.Publish(topics[ti], []byte{byte(50 + i)}, retain, q)
			vAssert("inline-publish-accepted", err == nil)
			if retain {
				retainedOnA = true
			}
			for id := 1; id <= 2; id++ {
				n := 0
				for _, r := range got[before:] {
					if r.id == id && r.topic == topics[ti] && r.payload == byte(50+i) {
						n++
					}
				}
				want := 0
				for fi := 0; fi < 4; fi++ {
					if has[id][fi] && refMatch(filters[fi], topics[ti]) {
						want = 1
					}
				}
				if want == 1 {
					vAssert("matching-inline-subscription-invoked-once", n == 1)
				} else {
					vAssert("inline-identifier-without-matching-subscription-not-invoked", n == 0)
				}
			}
			vFlush(cl)
			w := vParseWire(vConnWritten(c), 5)
			vAssert("client-subscriber-receives-inline-publish", vCountPublishes(c, 5, topics[ti])-cb == 1)
			if len(w.Pkts) > 0 {
				p := w.Pkts[len(w.Pkts)-1]
				want := q
				if sq < want {
					want = sq
				}
				vAssert("client-copy-at-min-of-requested-and-subscription-qos", p.Type == packets.Publish && (p.Flags>>1)&3 == want)
			}
		}
	}
	vReach("end")
}

// VerifC40Prune: an inline subscription survives every index operation by others that prunes around its
// node: another client's subscribe+unsubscribe of the same or a deeper filter, a retained message set and
// cleared on the same topic. Afterwards a publish still reaches it exactly once.
func VerifC40Prune() {
	s, _ := vNewServer(&Options{InlineClient: true})
	filters := []string{"a/b", "a/+", "a/#", "a"}
	fi := vChoose(4)
	n := 0
	_ = s.Subscribe(filters[fi], 1, func(cl *Client, sub packets.Subscription, pk packets.Packet) {
		if len(pk.Payload) > 0 && pk.Payload[0] == 77 {
			n++
		}
	})
	switch vChoose(4) {
	case 0: // same filter, regular client
		s.Topics.Subscribe("c2", packets.Subscription{Filter: filters[fi]})
		s.Topics.Unsubscribe(filters[fi], "c2")
	case 1: // deeper filter
		s.Topics.Subscribe("c2", packets.Subscription{Filter: filters[fi] + "/x"})
		s.Topics.Unsubscribe(filters[fi]+"/x", "c2")
	case 2: // retained message on the node's own path set and cleared
		if fi == 0 || fi == 3 {
			_ = s.Publish(filters[fi], []byte{1}, true, 0)
			_ = s.Publish(filters[fi], nil, true, 0)
		}
	case 3: // a shared subscription on the same filter comes and goes
		s.Topics.Subscribe("c2", packets.Subscription{Filter: "$share/g/" + filters[fi]})
		s.Topics.Unsubscribe("$share/g/"+filters[fi], "c2")
	}
	topic := []string{"a/b", "a/b", "a/b", "a"}[fi]
	_ = s.Publish(topic, []byte{77}, false, 0)
	vAssert("inline-subscription-survives-pruning-by-others", n == 1)
	vReach("end")
}
