package mqtt

import "github.com/mochi-mqtt/server/v2/packets"

// C35: for every schedule of concurrent connection attempts the number of simultaneously established
// connections never exceeds the configured maximum; attempts beyond it get a failure CONNACK
// (0x89 for MQTT 5, 0x03 for MQTT 3). Two (three) real connection handlers run as goroutines; the
// engine explores their interleavings at synchronisation operations within the pre-emption bound.
func VerifC35Limit() {
	caps := NewDefaultServerCapabilities()
	caps.MaximumClients = int64(vParam("MAX", 1))
	s, _ := vNewServer(&Options{Capabilities: caps})
	n := vParam("CONNS", 2)
	ver := byte(vConcrete(int(vByteIn("\x04\x05")), 4, 5))
	ids := []string{"c1", "c2", "c3"}
	var conns []interface{ Close() error }
	for i := 0; i < n; i++ {
		c := vConnLive()
		vConnFeed(c, vConnectBytes(vConnOpts{ver: ver, id: ids[i], clean: true, keepalive: 60}))
		conns = append(conns, c)
		cc := c
		go func() { _ = s.EstablishConnection("t1", cc) }()
	}
	vDrain()
	ok, refused := 0, 0
	for i := 0; i < n; i++ {
		w := vParseWire(vConnWritten(connOf(conns[i])), ver)
		vAssert("every-attempt-gets-a-connack", len(w.Pkts) >= 1 && w.Pkts[0].Type == packets.Connack)
		if len(w.Pkts) >= 1 {
			if w.Pkts[0].Reason == 0 {
				ok++
			} else {
				refused++
				if ver == 5 {
					vAssert("refused-v5-attempt-gets-0x89", w.Pkts[0].Reason == 0x89)
				} else {
					vAssert("refused-v3-attempt-gets-0x03", w.Pkts[0].Reason == 0x03)
				}
			}
		}
	}
	// all admitted connections are still open (nobody has hung up), so they are simultaneously established
	vAssert("established-connections-within-the-limit", ok <= int(caps.MaximumClients))
	vAssert("limit-not-undershot", ok == int(caps.MaximumClients) || n < int(caps.MaximumClients))
	vReach("end")
}
