package mqtt

import "github.com/mochi-mqtt/server/v2/packets"

// C35: for every schedule of concurrent connection attempts the number of simultaneously established
// connections never exceeds the configured maximum; attempts beyond it get a failure CONNACK
// (0x89 for MQTT 5, 0x03 for MQTT 3). Two (three) real connection handlers run as goroutines; the
// engine explores their interleavings at synchronisation operations within the pre-emption bound.
func VerifC35Limit() {
	caps := NewDefaultServerCapabilities()
	caps.MaximumClients = int64(vParam("MAX", 1))
	s, _ := vNewServer(&Options{Capabilities: caps})
	n := vParam("CONNS", 2)
	ver := byte(vConcrete(int(vByteIn("\x04\x05")), 4, 5))
	ids := []string{"c1", "c2", "c3"}
	var conns []interface{ Close() error }
	for i := 0; i < n; i++ {
		c := vConnLive()
		vConnFeed(c, vConnectBytes(vConnOpts{ver: ver, id: ids[i], clean: true, keepalive: 60}))
		conns = append(conns, c)
		cc := c
		go func() { _ = s.EstablishConnection("t1", cc) }()
	}
	vDrain()
	ok, refused := 0, 0
	for i := 0; i < n; i++ {
		w := vParseWire(vConnWritten(connOf(conns[i])), ver)
		vAssert("every-attempt-gets-a-connack", len(w.Pkts) >= 1 && w.Pkts[0].Type == packets.Connack)
		if len(w.Pkts) >= 1 {
			if w.Pkts[0].Reason == 0 {
				ok++
			} else {
				refused++
				if ver == 5 {
					vAssert("refused-v5-attempt-gets-0x89", w.Pkts[0].Reason == 0x89)
				} else {
					vAssert("refused-v3-attempt-gets-0x03", w.Pkts[0].Reason == 0x03)
				}
			}
		}
	}
	// all admitted connections are still open (nobody has hung up), so they are simultaneously established
	vAssert("established-connections-within-the-limit", ok <= int(caps.MaximumClients))
	vAssert("limit-not-undershot", ok == int(caps.MaximumClients) || n < int(caps.MaximumClients))
	vReach("end")
}

// VerifC35History: the limit also holds after any history of connections, takeovers (a second connection with
// the id of a live one) and hang-ups: the slot accounting must neither leak nor double-release. After the
// history, MAX+1 fresh attempts are made one after the other; at no point are more than MAX connections open
// that were admitted, and an attempt is refused only when MAX are open.
func VerifC35History() {
	caps := NewDefaultServerCapabilities()
	max := vParam("MAX", 2)
	caps.MaximumClients = int64(max)
	s, _ := vNewServer(&Options{Capabilities: caps})
	ver := byte(vConcrete(int(vByteIn("\x04\x05")), 4, 5))
	type conn struct {
		c  interface{ Close() error }
		id string
	}
	var open []conn // admitted and not closed (by the client or by the broker)
	admitted := func(c interface{ Close() error }) bool {
		w := vParseWire(vConnWritten(connOf(c)), ver)
		return len(w.Pkts) >= 1 && w.Pkts[0].Type == packets.Connack && w.Pkts[0].Reason == 0
	}
	prune := func() {
		var keep []conn
		for _, x := range open {
			if !vConnClosed(connOf(x.c)) {
				keep = append(keep, x)
			}
		}
		open = keep
	}
	attempt := func(id string) {
		prune()
		before := len(open)
		takeover := false
		for _, x := range open {
			if x.id == id {
				takeover = true
			}
		}
		c := vDial(s, vConnOpts{ver: ver, id: id, clean: true, keepalive: 60})
		ok := admitted(c)
		if ok {
			open = append(open, conn{c, id})
		}
		prune()
		vAssert("established-connections-within-the-limit", len(open) <= max)
		if before < max {
			vAssert("attempt-below-the-limit-is-admitted", ok)
		}
		if before >= max && !takeover {
			vAssert("attempt-beyond-the-limit-is-refused", !ok)
		}
	}
	ids := []string{"a", "b", "c", "d", "e"}
	steps := vParam("STEPS", 3)
	for i := 0; i < steps; i++ {
		switch vChoose(3) {
		case 0: // a fresh id, or the id of a connection that may be live (takeover)
			attempt(ids[vChoose(2)])
		case 1: // takeover of the first open connection
			prune()
			if len(open) > 0 {
				attempt(open[0].id)
			}
		case 2: // the first open connection hangs up
			prune()
			if len(open) > 0 {
				vHangup(connOf(open[0].c))
			}
		}
	}
	for k := 0; k <= max; k++ {
		attempt(ids[2+k%3])
	}
	vReach("end")
}
