package mqtt

// Strict reference decoder for what the broker writes to a client, written from the MQTT 3.1.1 / 5.0
// specifications (not from the code under test). Used as the oracle of C07, C13, C23 and others.

type vPkt struct {
	Type     byte
	Flags    byte
	Size     int // total bytes on the wire
	ID       uint16
	HasID    bool
	Reason   byte
	HasRsn   bool
	Codes    []byte // SUBACK / UNSUBACK reason codes
	Topic    string
	Payload  []byte
	Session  bool // CONNACK session present
	HasProps bool
	PropIDs  []byte // property identifiers in order of appearance
	Alias    uint16
	HasAlias bool
	SubIDs   []int
	Expiry   uint32
	HasExp   bool
	Bad      string // non-empty: why the packet is not well-formed
}

type vWire struct {
	Pkts     []vPkt
	Trailing int // bytes after the last complete packet
}

func vRdU16(b []byte, o int) (uint16, int, bool) {
	if o+2 > len(b) {
		return 0, o, false
	}
	return uint16(b[o])<<8 | uint16(b[o+1]), o + 2, true
}

func vRdBin(b []byte, o int) ([]byte, int, bool) {
	n, o, ok := vRdU16(b, o)
	if !ok || o+int(n) > len(b) {
		return nil, o, false
	}
	return b[o : o+int(n)], o + int(n), true
}

// vRdVarint: minimal-form variable byte integer
func vRdVarint(b []byte, o int) (int, int, bool) {
	v, mult := 0, 1
	for i := 0; i < 4; i++ {
		if o >= len(b) {
			return 0, o, false
		}
		c := b[o]
		o++
		v += int(c&127) * mult
		mult *= 128
		if c&128 == 0 {
			if i > 0 && c == 0 {
				return 0, o, false // non-minimal
			}
			return v, o, true
		}
	}
	return 0, o, false
}

// property identifier -> value kind: 1 byte, 2 u16, 4 u32, 5 varint, 6 string, 7 binary, 8 string pair
func vPropKind(id byte) int {
	switch id {
	case 1, 23, 25, 36, 37, 40, 41, 42:
		return 1
	case 19, 33, 34, 35:
		return 2
	case 2, 17, 24, 39:
		return 4
	case 11:
		return 5
	case 3, 8, 18, 21, 26, 28, 31:
		return 6
	case 9, 22:
		return 7
	case 38:
		return 8
	}
	return 0
}

// vPropLegal: may property id appear in a packet of type t that a SERVER sends? (MQTT 5 table 2-4)
func vPropLegal(id, t byte) bool {
	switch id {
	case 1, 2, 3, 8, 9, 35:
		return t == 3
	case 11:
		return t == 3
	case 17:
		return t == 2 || t == 14
	case 18, 19, 26, 33, 34, 36, 37, 39, 40, 41, 42:
		return t == 2
	case 21, 22:
		return t == 2 || t == 15
	case 28:
		return t == 2 || t == 14
	case 31:
		return t == 2 || t == 4 || t == 5 || t == 6 || t == 7 || t == 9 || t == 11 || t == 14 || t == 15
	case 38:
		return t != 12 && t != 13
	}
	return false
}

func vParseProps(p *vPkt, b []byte, o int) (int, bool) {
	n, o, ok := vRdVarint(b, o)
	if !ok || o+n > len(b) {
		p.Bad = "property length"
		return o, false
	}
	end := o + n
	p.HasProps = true
	for o < end {
		id := b[o]
		o++
		if !vPropLegal(id, p.Type) {
			p.Bad = "property not legal for this packet type"
			return o, false
		}
		if id != 38 && id != 11 {
			for _, seen := range p.PropIDs {
				if seen == id {
					p.Bad = "property repeated"
					return o, false
				}
			}
		}
		p.PropIDs = append(p.PropIDs, id)
		switch vPropKind(id) {
		case 1:
			o++
		case 2:
			v, no, ok := vRdU16(b, o)
			if !ok {
				p.Bad = "property value"
				return o, false
			}
			if id == 35 {
				p.Alias, p.HasAlias = v, true
			}
			o = no
		case 4:
			if o+4 > len(b) {
				p.Bad = "property value"
				return o, false
			}
			if id == 2 {
				p.Expiry = uint32(b[o])<<24 | uint32(b[o+1])<<16 | uint32(b[o+2])<<8 | uint32(b[o+3])
				p.HasExp = true
			}
			o += 4
		case 5:
			v, no, ok := vRdVarint(b, o)
			if !ok || v == 0 {
				p.Bad = "subscription identifier"
				return o, false
			}
			p.SubIDs = append(p.SubIDs, v)
			o = no
		case 6, 7:
			_, no, ok := vRdBin(b, o)
			if !ok {
				p.Bad = "property value"
				return o, false
			}
			o = no
		case 8:
			_, no, ok := vRdBin(b, o)
			if !ok {
				p.Bad = "property value"
				return o, false
			}
			_, no, ok = vRdBin(b, no)
			if !ok {
				p.Bad = "property value"
				return o, false
			}
			o = no
		default:
			p.Bad = "unknown property"
			return o, false
		}
		if o > end {
			p.Bad = "property overruns block"
			return o, false
		}
	}
	return o, true
}

// vParseOne parses the packet starting at b[0]; ok=false means incomplete/garbled framing.
func vParseOne(b []byte, ver byte) (vPkt, bool) {
	var p vPkt
	if len(b) < 2 {
		return p, false
	}
	p.Type, p.Flags = b[0]>>4, b[0]&15
	rl, o, ok := vRdVarint(b, 1)
	if !ok || o+rl > len(b) {
		return p, false
	}
	p.Size = o + rl
	body := b[o : o+rl]
	v5 := ver == 5
	want := byte(0)
	if p.Type == 6 || p.Type == 8 || p.Type == 10 {
		want = 2
	}
	if p.Type != 3 && p.Flags != want {
		p.Bad = "reserved flags"
		return p, true
	}
	i := 0
	switch p.Type {
	case 2: // CONNACK
		if len(body) < 2 || body[0] > 1 {
			p.Bad = "connack header"
			return p, true
		}
		p.Session, p.Reason, p.HasRsn = body[0] == 1, body[1], true
		i = 2
		if v5 {
			if i, ok = vParseProps(&p, body, i); !ok {
				return p, true
			}
		}
	case 3: // PUBLISH
		qos := (p.Flags >> 1) & 3
		if qos == 3 {
			p.Bad = "qos 3"
			return p, true
		}
		t, ni, ok := vRdBin(body, 0)
		if !ok {
			p.Bad = "topic"
			return p, true
		}
		p.Topic, i = string(t), ni
		if qos > 0 {
			if p.ID, i, ok = vRdU16(body, i); !ok {
				p.Bad = "packet id"
				return p, true
			}
			p.HasID = true
		}
		if v5 {
			if i, ok = vParseProps(&p, body, i); !ok {
				return p, true
			}
		}
		p.Payload = body[i:]
		i = len(body)
	case 4, 5, 6, 7: // PUBACK PUBREC PUBREL PUBCOMP
		if p.ID, i, ok = vRdU16(body, 0); !ok {
			p.Bad = "packet id"
			return p, true
		}
		p.HasID = true
		if v5 && len(body) > 2 {
			p.Reason, p.HasRsn = body[2], true
			i = 3
			if len(body) > 3 {
				if i, ok = vParseProps(&p, body, i); !ok {
					return p, true
				}
			}
		}
	case 9, 11: // SUBACK UNSUBACK
		if p.ID, i, ok = vRdU16(body, 0); !ok {
			p.Bad = "packet id"
			return p, true
		}
		p.HasID = true
		if v5 {
			if i, ok = vParseProps(&p, body, i); !ok {
				return p, true
			}
		}
		if p.Type == 9 || v5 {
			p.Codes = body[i:]
			i = len(body)
		}
	case 13: // PINGRESP
	case 14: // DISCONNECT
		if v5 && len(body) > 0 {
			p.Reason, p.HasRsn = body[0], true
			i = 1
			if len(body) > 1 {
				if i, ok = vParseProps(&p, body, i); !ok {
					return p, true
				}
			}
		}
	case 15: // AUTH
		if len(body) > 0 {
			p.Reason, p.HasRsn = body[0], true
			i = 1
			if len(body) > 1 {
				if i, ok = vParseProps(&p, body, i); !ok {
					return p, true
				}
			}
		}
	default:
		p.Bad = "packet type a server never sends"
		return p, true
	}
	if i != len(body) {
		p.Bad = "trailing bytes inside packet"
	}
	return p, true
}

func vParseWire(b []byte, ver byte) vWire {
	var w vWire
	o := 0
	for o < len(b) {
		p, ok := vParseOne(b[o:], ver)
		if !ok {
			break
		}
		w.Pkts = append(w.Pkts, p)
		o += p.Size
	}
	w.Trailing = len(b) - o
	return w
}

func vHasWildcard(s string) bool { return refHas(s, '+') || refHas(s, '#') }

// vAssertWellFormed: C23's per-transcript obligations for a client of protocol version ver.
func vAssertWellFormed(w vWire, ver byte, maxSize uint32) {
	vAssert("wire-complete-packets-only", w.Trailing == 0)
	for i, p := range w.Pkts {
		vAssert("wire-packet-well-formed", p.Bad == "")
		if maxSize > 0 {
			vAssert("wire-within-maximum-packet-size", uint32(p.Size) <= maxSize)
		}
		if p.Type == 3 {
			vAssert("wire-publish-topic-no-wildcard", !vHasWildcard(p.Topic))
		}
		if ver < 5 {
			// recorded classes (both pinned by existing tests): DisconnectClient writes a DISCONNECT whatever the
			// protocol version, and SendConnack passes MQTT 5 reason codes it has no mapping for through to v3 clients
			vAssert("kf-disconnect-packet-written-to-an-mqtt3-client", p.Type != 14)
			vAssert("wire-v3-no-disconnect-or-auth", p.Type != 14 && p.Type != 15)
			if p.Type == 2 {
				vAssert("kf-v3-connack-carries-an-unmapped-mqtt5-reason-code", p.Reason < 0x80)
				vAssert("wire-v3-connack-code-0-5", p.Reason <= 5)
			}
			if p.Type == 9 {
				for _, c := range p.Codes {
					vAssert("wire-v3-suback-codes", c <= 2 || c == 0x80)
				}
			}
		}
		if p.Type == 14 {
			vAssert("wire-nothing-after-disconnect", i == len(w.Pkts)-1)
		}
	}
}
