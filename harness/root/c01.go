package mqtt

import "github.com/mochi-mqtt/server/v2/packets"

// C01: Subscribers(topic) selects exactly the subscriptions whose filter matches the topic.
// kind: 0 client, 1 shared ($share/g/<inner>), 2 inline.
func vC01Filter(n int) string {
	f := vStrIn(n, "/+#$ab")
	vAssume(refValidPlain(f))
	return f
}

func vC01Topic(max int) string {
	n := 1 + vLen(max-1)
	return vStrIn(n, "/$ab")
}

func vNopInline(cl *Client, sub packets.Subscription, pk packets.Packet) {}

func vC01(kind int) {
	x := NewTopicsIndex()
	inner := vC01Filter(1 + vLen(vParam("F", 4)-1))
	topic := vC01Topic(vParam("T", 3))
	filter := inner
	switch kind {
	case 0:
		x.Subscribe("c1", packets.Subscription{Filter: filter, Qos: 1})
	case 1:
		filter = "$share/g/" + inner
		x.Subscribe("c1", packets.Subscription{Filter: filter, Qos: 1})
	case 2:
		x.InlineSubscribe(InlineSubscription{Subscription: packets.Subscription{Filter: filter, Identifier: 7}, Handler: vNopInline})
	}
	if vParam("EXTRA", 0) == 1 {
		// an unrelated second subscription sharing the trie
		x.Subscribe("c2", packets.Subscription{Filter: "a/b", Qos: 0})
	}
	subs := x.Subscribers(topic)
	want := refMatch(inner, topic)
	got := false
	switch kind {
	case 0:
		_, got = subs.Subscriptions["c1"]
		vAssert("no-shared-for-plain", len(subs.Shared) == 0)
	case 1:
		m, ok := subs.Shared[filter]
		if ok {
			_, got = m["c1"]
		}
		_, plain := subs.Subscriptions["c1"]
		vAssert("shared-not-in-plain", !plain)
	case 2:
		_, got = subs.InlineSubscriptions[7]
	}
	vObserveBool("got", got)
	vAssert("selects-only-matching", !got || want)
	vAssert("selects-all-matching", !want || got)
	vReach("end")
}

func VerifC01Client() { vC01(0) }
func VerifC01Shared() { vC01(1) }
func VerifC01Inline() { vC01(2) }

// two overlapping client subscriptions of different clients plus the merged view of one client
func VerifC01Two() {
	x := NewTopicsIndex()
	f1 := vC01Filter(1 + vLen(vParam("F", 3)-1))
	f2 := vC01Filter(1 + vLen(vParam("F", 3)-1))
	topic := vC01Topic(vParam("T", 3))
	x.Subscribe("c1", packets.Subscription{Filter: f1, Qos: 1, Identifier: 1})
	x.Subscribe("c1", packets.Subscription{Filter: f2, Qos: 2, Identifier: 2})
	subs := x.Subscribers(topic)
	m1, m2 := refMatch(f1, topic), refMatch(f2, topic)
	s, got := subs.Subscriptions["c1"]
	vAssert("two-selected-iff-any-matches", got == (m1 || m2))
	if got && f1 != f2 {
		// the merged subscription reflects exactly the matching filters
		id1, has1 := s.Identifiers[f1]
		id2, has2 := s.Identifiers[f2]
		if s.Identifiers == nil {
			has1, id1 = s.Filter == f1, s.Identifier
			has2, id2 = s.Filter == f2, s.Identifier
		}
		vAssert("two-merged-has-f1-iff-matches", has1 == m1 && (!has1 || id1 == 1))
		vAssert("two-merged-has-f2-iff-matches", has2 == m2 && (!has2 || id2 == 2))
	}
	vReach("end")
}

// VerifC01History: after any history of subscribe / unsubscribe operations by clients, share-group members and
// inline subscribers over a small set of filters, and of retained messages set and cleared on the same paths
// (all of which add and prune index nodes), Subscribers(topic) selects exactly the subscriptions that the
// history left in place and whose filter matches the topic.
func VerifC01History() {
	x := NewTopicsIndex()
	filters := []string{"a/b", "a/+", "a/#", "a/b/c"}
	var cli, shr, inl [4]bool // model: is there a client / shared / inline subscription on filters[i]?
	steps := vParam("STEPS", 3)
	for i := 0; i < steps; i++ {
		fi := vChoose(4)
		switch vChoose(7) {
		case 0:
			x.Subscribe("c1", packets.Subscription{Filter: filters[fi], Qos: 1})
			cli[fi] = true
		case 1:
			x.Unsubscribe(filters[fi], "c1")
			cli[fi] = false
		case 2:
			x.Subscribe("c2", packets.Subscription{Filter: "$share/g/" + filters[fi], Qos: 1})
			shr[fi] = true
		case 3:
			x.Unsubscribe("$share/g/"+filters[fi], "c2")
			shr[fi] = false
		case 4:
			x.InlineSubscribe(InlineSubscription{Subscription: packets.Subscription{Filter: filters[fi], Identifier: 1 + fi}, Handler: vNopInline})
			inl[fi] = true
		case 5:
			x.InlineUnsubscribe(1+fi, filters[fi])
			inl[fi] = false
		case 6: // a retained message comes and goes on a concrete path
			if fi == 0 || fi == 3 {
				x.RetainMessage(packets.Packet{FixedHeader: packets.FixedHeader{Type: packets.Publish, Retain: true}, TopicName: filters[fi], Payload: []byte{1}})
				x.RetainMessage(packets.Packet{FixedHeader: packets.FixedHeader{Type: packets.Publish, Retain: true}, TopicName: filters[fi]})
			}
		}
	}
	topic := []string{"a/b", "a/b/c", "a", "a/x"}[vChoose(4)]
	subs := x.Subscribers(topic)
	for fi, f := range filters {
		m := refMatch(f, topic)
		_, gotInl := subs.InlineSubscriptions[1+fi]
		vAssert("inline-subscription-selected-iff-in-place-and-matching", gotInl == (inl[fi] && m))
		_, gotShr := subs.Shared["$share/g/"+f]
		vAssert("shared-subscription-selected-iff-in-place-and-matching", gotShr == (shr[fi] && m))
	}
	wantCli := false
	for fi, f := range filters {
		if cli[fi] && refMatch(f, topic) {
			wantCli = true
		}
	}
	_, gotCli := subs.Subscriptions["c1"]
	vAssert("client-selected-iff-a-matching-subscription-is-in-place", gotCli == wantCli)
	vReach("end")
}
