package mqtt

import "github.com/mochi-mqtt/server/v2/packets"

// C07: every well-formed request is answered (or the connection is closed), with the request's packet id.
func VerifC07Request() {
	ver := byte(vParam("VER", 5))
	s, h := vNewServer(nil)
	denyTopic := vBool()
	h.aclDeny = func(cl *Client, topic string, write bool) bool { return denyTopic && topic == "a" }
	cl, c := vNewClient(s, "c1", ver)
	kind := vChoose(6) // 0 PUBLISH q1, 1 PUBLISH q2, 2 PUBREL, 3 SUBSCRIBE, 4 UNSUBSCRIBE, 5 PINGREQ
	id := vU16()
	vAssume(id != 0)
	topics := []string{"a", "$SYS/x", "b/c", ""}
	var pk packets.Packet
	pk.ProtocolVersion = ver
	pk.PacketID = id
	nf := 0
	switch kind {
	case 0, 1:
		pk.FixedHeader = packets.FixedHeader{Type: packets.Publish, Qos: byte(kind + 1)}
		pk.TopicName = topics[vChoose(3)]
		pk.Payload = []byte{1}
		if kind == 1 && vBool() {
			// retransmission: the id is still in an inbound QoS 2 exchange (PUBREC sent, no PUBREL yet)
			cl.State.Inflight.Set(packets.Packet{FixedHeader: packets.FixedHeader{Type: packets.Pubrec}, PacketID: id})
			pk.FixedHeader.Dup = vBool() // a retransmission normally carries DUP=1
		}
	case 2:
		pk.FixedHeader = packets.FixedHeader{Type: packets.Pubrel, Qos: 1}
		if vBool() {
			cl.State.Inflight.Set(packets.Packet{FixedHeader: packets.FixedHeader{Type: packets.Pubrec}, PacketID: id})
		}
	case 3:
		pk.FixedHeader = packets.FixedHeader{Type: packets.Subscribe, Qos: 1}
		nf = 1 + vChoose(2)
		fs := []string{"a", "a/+", "b#", "$share/g/a"}
		for i := 0; i < nf; i++ {
			pk.Filters = append(pk.Filters, packets.Subscription{Filter: fs[vChoose(4)], Qos: vByteIn("\x00\x01\x02")})
		}
	case 4:
		pk.FixedHeader = packets.FixedHeader{Type: packets.Unsubscribe, Qos: 1}
		nf = 1 + vChoose(2)
		fs := []string{"a", "a/+", "zz"}
		if vBool() {
			s.Topics.Subscribe("c1", packets.Subscription{Filter: "a"})
			cl.State.Subscriptions.Add("a", packets.Subscription{Filter: "a"})
		}
		for i := 0; i < nf; i++ {
			pk.Filters = append(pk.Filters, packets.Subscription{Filter: fs[vChoose(3)]})
		}
	case 5:
		pk.FixedHeader = packets.FixedHeader{Type: packets.Pingreq}
		pk.PacketID = 0
	}
	_ = s.receivePacket(cl, pk)
	vFlush(cl)
	if vParam("WF", 0) == 1 {
		vAssertWellFormed(vParseWire(vConnWritten(c), ver), ver, 0)
	}
	if cl.Closed() || vConnClosed(c) {
		vReach("closed")
		return
	}
	w := vParseWire(vConnWritten(c), ver)
	vAssert("transcript-parses", w.Trailing == 0)
	wantType := [6]byte{packets.Puback, packets.Pubrec, packets.Pubcomp, packets.Suback, packets.Unsuback, packets.Pingresp}[kind]
	n := 0
	var ack vPkt
	for _, p := range w.Pkts {
		if p.Type == wantType {
			n++
			ack = p
		}
	}
	vAssert("exactly-one-response", n == 1)
	if n == 1 {
		if kind != 5 {
			vAssert("response-carries-request-id", ack.HasID && ack.ID == id)
		}
		if kind == 3 || (kind == 4 && ver == 5) {
			vAssert("one-reason-code-per-filter", len(ack.Codes) == nf)
		}
	}
	vReach("answered")
}
