package mqtt

import (
	"net"

	"github.com/mochi-mqtt/server/v2/packets"
)

// C15: a disconnected session is discarded only once its expiry interval has elapsed (client interval
// capped by the server maximum; server maximum for MQTT 3 persistent sessions); expiry 0 / MQTT 3 clean
// => discarded at disconnect; a connected session is never discarded; once discarded nothing of it
// survives; a DISCONNECT cannot raise a zero interval to non-zero.
func VerifC15Expiry() {
	caps := NewDefaultServerCapabilities()
	caps.MaximumSessionExpiryInterval = uint32(vRange(0, 1<<20))
	s, _ := vNewServer(&Options{Capabilities: caps})
	ver := byte(vConcrete(int(vByteIn("\x04\x05")), 4, 5))
	clean := vBool()
	var sei uint32
	seiSet := false
	if ver == 5 {
		seiSet = vBool()
		if seiSet {
			sei = vU32()
			vAssume(sei < 1<<20)
		}
	}
	c1 := vDial(s, vConnOpts{ver: ver, id: "c1", clean: clean, keepalive: 60, seiSet: seiSet, sei: sei, rm: 5})
	vSend(c1, vSubscribeBytes(1, "t", 1, ver))
	now := vNow()
	// housekeeping while the client is connected never discards it
	s.clearExpiredClients(now + int64(vRange(0, 1<<21)))
	_, stillThere := s.Clients.Get("c1")
	vAssert("connected-session-never-discarded", stillThere)
	// the client goes away (connection lost)
	vHangup(c1)
	// effective interval
	var eff int64
	endsAtDisconnect := false
	if ver == 5 {
		eff = int64(sei)
		if !seiSet {
			eff = 0
		}
		if eff > int64(caps.MaximumSessionExpiryInterval) {
			eff = int64(caps.MaximumSessionExpiryInterval)
		}
		endsAtDisconnect = eff == 0
	} else {
		eff = int64(caps.MaximumSessionExpiryInterval)
		endsAtDisconnect = clean
	}
	_, exists := s.Clients.Get("c1")
	if endsAtDisconnect {
		vAssert("session-with-expiry-0-discarded-at-disconnect", !exists)
	} else {
		vAssert("persistent-session-kept-at-disconnect", exists)
		dt := now + int64(vRange(0, 1<<21))
		s.clearExpiredClients(dt)
		_, exists = s.Clients.Get("c1")
		if dt <= now+eff {
			vAssert("session-not-discarded-before-its-interval-elapsed", exists)
		}
		if dt > now+eff+1 {
			vAssert("session-discarded-after-its-interval-elapsed", !exists)
		}
	}
	if !exists {
		// nothing survives: a publish matching the old subscription reaches nobody, and a new connection
		// with the same id starts from scratch
		subs := s.Topics.Subscribers("t")
		_, ghost := subs.Subscriptions["c1"]
		vAssert("discarded-session-leaves-no-subscription", !ghost)
		c2 := vDial(s, vConnOpts{ver: ver, id: "c1", clean: false, keepalive: 60, seiSet: ver == 5, sei: 100, rm: 5})
		w := vParseWire(vConnWritten(c2), ver)
		vAssert("new-connection-connack", len(w.Pkts) >= 1 && w.Pkts[0].Type == packets.Connack)
		if len(w.Pkts) >= 1 {
			vAssert("no-session-present-after-discard", !w.Pkts[0].Session)
		}
		s.publishToSubscribers(packets.Packet{FixedHeader: packets.FixedHeader{Type: packets.Publish}, TopicName: "t", Payload: []byte{1}, Origin: "pub"})
		vDrain()
		vAssert("new-connection-receives-nothing-because-of-the-old-session", vCountPublishes(c2, ver, "t") == 0)
		vReach("discarded")
	} else {
		vReach("kept")
	}
}

// a DISCONNECT cannot raise a zero session expiry interval to non-zero
func VerifC15DisconnectInterval() {
	s, _ := vNewServer(nil)
	var c1 net.Conn
	sei := vU32()
	vAssume(sei < 1<<20)
	c1 = vDial(s, vConnOpts{ver: 5, id: "c1", clean: false, keepalive: 60, seiSet: true, sei: sei, rm: 5})
	nsei := vU32()
	vAssume(nsei < 1<<20)
	// DISCONNECT with reason 0 and a session expiry interval property
	vSend(c1, append([]byte{packets.Disconnect << 4, 7, 0, 5, 17}, vU32b(nsei)...))
	cl, ok := s.Clients.Get("c1")
	if sei == 0 {
		if nsei > 0 {
			vAssert("zero-interval-not-raised-by-disconnect", !ok || cl.Properties.Props.SessionExpiryInterval == 0)
		}
		vReach("zero")
	} else if ok {
		vAssert("disconnect-interval-applied", cl.Properties.Props.SessionExpiryInterval == nsei)
		vReach("nonzero")
	}
}
