package mqtt

import (
	"net"

	"github.com/mochi-mqtt/server/v2/packets"
)

// C15: a disconnected session is discarded only once its expiry interval has elapsed (client interval
// capped by the server maximum; server maximum for MQTT 3 persistent sessions); expiry 0 / MQTT 3 clean
// => discarded at disconnect; a connected session is never discarded; once discarded nothing of it
// survives; a DISCONNECT cannot raise a zero interval to non-zero.
func VerifC15Expiry() {
	caps := NewDefaultServerCapabilities()
	caps.MaximumSessionExpiryInterval = uint32(vRange(0, 1<<20))
	s, _ := vNewServer(&Options{Capabilities: caps})
	ver := byte(vConcrete(int(vByteIn("\x04\x05")), 4, 5))
	clean := vBool()
	var sei uint32
	seiSet := false
	if ver == 5 {
		seiSet = vBool()
		if seiSet {
			sei = vU32()
			vAssume(sei < 1<<20)
		}
	}
	c1 := vDial(s, vConnOpts{ver: ver, id: "c1", clean: clean, keepalive: 60, seiSet: seiSet, sei: sei, rm: 5})
	vSend(c1, vSubscribeBytes(1, "t", 1, ver))
	now := vNow()
	// housekeeping while the client is connected never discards it
	s.clearExpiredClients(now + int64(vRange(0, 1<<21)))
	_, stillThere := s.Clients.Get("c1")
	vAssert("connected-session-never-discarded", stillThere)
	// the client goes away (connection lost)
	vHangup(c1)
	// effective interval
	var eff int64
	endsAtDisconnect := false
	if ver == 5 {
		eff = int64(sei)
		if !seiSet {
			eff = 0
		}
		if eff > int64(caps.MaximumSessionExpiryInterval) {
			eff = int64(caps.MaximumSessionExpiryInterval)
		}
		endsAtDisconnect = eff == 0
	} else {
		eff = int64(caps.MaximumSessionExpiryInterval)
		endsAtDisconnect = clean
	}
	_, exists := s.Clients.Get("c1")
	if endsAtDisconnect {
		vAssert("session-with-expiry-0-discarded-at-disconnect", !exists)
	} else {
		vAssert("persistent-session-kept-at-disconnect", exists)
		dt := now + int64(vRange(0, 1<<21))
		s.clearExpiredClients(dt)
		_, exists = s.Clients.Get("c1")
		if dt <= now+eff {
			vAssert("session-not-discarded-before-its-interval-elapsed", exists)
		}
		if dt > now+eff+1 {
			vAssert("session-discarded-after-its-interval-elapsed", !exists)
		}
	}
	if !exists {
		// nothing survives: a publish matching the old subscription reaches nobody, and a new connection
		// with the same id starts from scratch
		subs := s.Topics.Subscribers("t")
		_, ghost := subs.Subscriptions["c1"]
		vAssert("discarded-session-leaves-no-subscription", !ghost)
		c2 := vDial(s, vConnOpts{ver: ver, id: "c1", clean: false, keepalive: 60, seiSet: ver == 5, sei: 100, rm: 5})
		w := vParseWire(vConnWritten(c2), ver)
		vAssert("new-connection-connack", len(w.Pkts) >= 1 && w.Pkts[0].Type == packets.Connack)
		if len(w.Pkts) >= 1 {
			vAssert("no-session-present-after-discard", !w.Pkts[0].Session)
		}
		s.publishToSubscribers(packets.Packet{FixedHeader: packets.FixedHeader{Type: packets.Publish}, TopicName: "t", Payload: []byte{1}, Origin: "pub"})
		vDrain()
		vAssert("new-connection-receives-nothing-because-of-the-old-session", vCountPublishes(c2, ver, "t") == 0)
		vReach("discarded")
	} else {
		vReach("kept")
	}
}

// a DISCONNECT cannot raise a zero session expiry interval to non-zero
func VerifC15DisconnectInterval() {
	s, _ := vNewServer(nil)
	var c1 net.Conn
	sei := vU32()
	vAssume(sei < 1<<20)
	c1 = vDial(s, vConnOpts{ver: 5, id: "c1", clean: false, keepalive: 60, seiSet: true, sei: sei, rm: 5})
	nsei := vU32()
	vAssume(nsei < 1<<20)
	// DISCONNECT with reason 0 and a session expiry interval property
	vSend(c1, append([]byte{packets.Disconnect << 4, 7, 0, 5, 17}, vU32b(nsei)...))
	cl, ok := s.Clients.Get("c1")
	if sei == 0 {
		if nsei > 0 {
			vAssert("zero-interval-not-raised-by-disconnect", !ok || cl.Properties.Props.SessionExpiryInterval == 0)
		}
		vReach("zero")
	} else if ok {
		vAssert("disconnect-interval-applied", cl.Properties.Props.SessionExpiryInterval == nsei)
		vReach("nonzero")
	}
}

// VerifC15Generations: a session that has been resumed (once or twice, by takeover or after a hang-up) and is
// then discarded - by a Clean Start 1 connection, by its expiry at housekeeping, or at disconnect when the
// last connection asked for no expiry - leaves nothing behind: no subscription in the index, no in-flight
// message, and a later connection with the same client identifier receives nothing.
func VerifC15Generations() {
	caps := NewDefaultServerCapabilities()
	s, _ := vNewServer(&Options{Capabilities: caps})
	ver := byte(vConcrete(int(vByteIn("\x04\x05")), 4, 5))
	persistent := vConnOpts{ver: ver, id: "c1", clean: false, keepalive: 60, seiSet: ver == 5, sei: 100, rm: 5}
	c := vDial(s, persistent)
	vSend(c, vSubscribeBytes(1, "t", 1, ver))
	s.publishToSubscribers(packets.Packet{FixedHeader: packets.FixedHeader{Type: packets.Publish, Qos: 1}, TopicName: "t", Payload: []byte{1}, Origin: "pub"})
	vDrain()
	now := vNow()
	resumes := 1 + vChoose(2)
	for i := 0; i < resumes; i++ {
		if vBool() {
			vHangup(c)
		}
		c = vDial(s, persistent)
	}
	// the session is discarded
	switch vChoose(3) {
	case 0: // a Clean Start 1 connection, which then leaves
		if vBool() {
			vHangup(c)
		}
		c = vDial(s, vConnOpts{ver: ver, id: "c1", clean: true, keepalive: 60, rm: 5})
		vHangup(c)
	case 1: // the connection ends and the session expires (MQTT 3: after the server's maximum)
		vHangup(c)
		if ver == 5 {
			s.clearExpiredClients(now + 100000)
		} else {
			s.clearExpiredClients(now + int64(caps.MaximumSessionExpiryInterval) + 100000)
		}
	case 2: // MQTT 5: the client disconnects asking for no session expiry; MQTT 3: expiry by housekeeping
		if ver == 5 {
			vSend(c, []byte{0xE0, 7, 0x00, 5, 0x11, 0, 0, 0, 0})
		} else {
			vHangup(c)
			s.clearExpiredClients(now + int64(caps.MaximumSessionExpiryInterval) + 100000)
		}
	}
	vDrain()
	subs := s.Topics.Subscribers("t")
	_, ghost := subs.Subscriptions["c1"]
	vAssert("discarded-session-leaves-no-subscription-in-the-index", !ghost)
	if old, ok := s.Clients.Get("c1"); ok {
		vAssert("discarded-session-leaves-no-inflight-message", old.State.Inflight.Len() == 0 && old.State.Subscriptions.Len() == 0)
	}
	// a later connection with the same identifier starts from nothing
	c3 := vDial(s, persistent)
	w := vParseWire(vConnWritten(c3), ver)
	vAssert("later-connection-gets-connack", len(w.Pkts) >= 1 && w.Pkts[0].Type == packets.Connack)
	if len(w.Pkts) >= 1 {
		vAssert("later-connection-has-no-session-present", !w.Pkts[0].Session)
	}
	s.publishToSubscribers(packets.Packet{FixedHeader: packets.FixedHeader{Type: packets.Publish, Qos: 0}, TopicName: "t", Payload: []byte{2}, Origin: "pub"})
	vDrain()
	vAssert("later-connection-receives-nothing-through-the-discarded-session", vCountPublishes(c3, ver, "t") == 0)
	vReach("end")
}
