package mqtt

import "github.com/mochi-mqtt/server/v2/packets"

// C28: whatever bytes one client sends, the broker keeps running (no panic in the connection handler or
// anything it calls), that connection is served or closed, and another well-behaved client keeps being
// served; a packet larger than the configured maximum is refused before its body is processed.
func VerifC28Stream() {
	caps := NewDefaultServerCapabilities()
	caps.MaximumPacketSize = uint32(vParam("MAXPKT", 24)) // keeps the number of feasible body sizes small; CONNECT packets fit
	s, _ := vNewServer(&Options{Capabilities: caps})
	ver := byte(vParam("VER", 5))
	good := vDial(s, vConnOpts{ver: 4, id: "good", clean: true, keepalive: 60})
	vSend(good, vSubscribeBytes(1, "#", 0, 4))
	bad := vDial(s, vConnOpts{ver: ver, id: "bad", clean: vBool(), keepalive: 60, will: vBool(), willTopic: "w", rm: 2})
	n := vLen(vParam("N", 4))
	vSend(bad, vBytes(n))
	vHangup(bad)
	vAssert("hostile-connection-ends-closed", vConnClosed(bad))
	// the other client is still served
	before := len(vConnWritten(good))
	vSend(good, []byte{0xC0, 0x00})
	out := vConnWritten(good)[before:]
	vAssert("well-behaved-client-still-served", len(out) >= 2 && out[len(out)-2] == 0xD0 && out[len(out)-1] == 0x00)
	w := vParseWire(vConnWritten(good), 4)
	vAssert("well-behaved-client-receives-well-formed-packets", w.Trailing == 0)
	for _, p := range w.Pkts {
		vAssert("well-behaved-client-packets-ok", p.Bad == "")
	}
	vReach("end")
}

// processPacket never panics for ANY packet value a decoder can hand it (not assumed valid)
func VerifC28Process() {
	s, _ := vNewServer(nil)
	ver := byte(vConcrete(int(vByteIn("\x03\x04\x05")), 3, 5))
	cl, _ := vNewClient(s, "c1", ver)
	if vBool() {
		cl.State.Inflight.Set(packets.Packet{FixedHeader: packets.FixedHeader{Type: vByteIn("\x03\x05\x06")}, PacketID: 1})
	}
	if vBool() {
		cl.State.Inflight.ResetReceiveQuota(0)
	}
	t := byte(vParam("TYPE", 3))
	pk := packets.Packet{ProtocolVersion: ver, FixedHeader: packets.FixedHeader{Type: t, Qos: vByteIn("\x00\x01\x02\x03"), Dup: vBool(), Retain: vBool()}, PacketID: vU16(), ReasonCode: vByte()}
	switch t {
	case packets.Publish:
		pk.TopicName = []string{"", "a", "a/+", "$SYS/x", "$share/g/a"}[vChoose(5)]
		if vBool() {
			pk.Payload = []byte{1}
		}
		if vBool() {
			pk.Properties.TopicAliasFlag = true
			pk.Properties.TopicAlias = vU16()
		}
		pk.Properties.SubscriptionIdentifier = make([]int, vChoose(2))
	case packets.Subscribe, packets.Unsubscribe:
		nf := vChoose(3)
		for i := 0; i < nf; i++ {
			pk.Filters = append(pk.Filters, packets.Subscription{Filter: []string{"", "a", "#/a", "$share//"}[vChoose(4)], Qos: vByteIn("\x00\x01\x02\x03"), NoLocal: vBool(), RetainHandling: vByteIn("\x00\x01\x02\x03")})
		}
	case packets.Disconnect:
		if vBool() {
			pk.Properties.SessionExpiryIntervalFlag = true
			pk.Properties.SessionExpiryInterval = vU32()
		}
	case packets.Suback, packets.Unsuback:
		pk.ReasonCodes = make([]byte, vChoose(2))
	}
	_ = s.receivePacket(cl, pk)
	vFlush(cl)
	vReach("returned")
}

// size refusal: a packet whose total size exceeds the configured maximum is refused before its body is read
func VerifC28MaxSize() {
	caps := NewDefaultServerCapabilities()
	M := uint32(vRange(4, 200))
	caps.MaximumPacketSize = M
	s, _ := vNewServer(&Options{Capabilities: caps})
	cl, c := vNewClient(s, "c1", 4)
	hb := byte(0x30) // PUBLISH QoS 0
	l1 := vByte()
	var hdr []byte
	two := vBool()
	if two {
		l2 := vByteIn("\x01")
		vAssume(l1 >= 128)
		hdr = []byte{hb, l1, l2}
	} else {
		vAssume(l1 < 128)
		hdr = []byte{hb, l1}
	}
	vConnFeed(c, hdr)
	fh := new(packets.FixedHeader)
	err := cl.ReadFixedHeader(fh)
	remaining := int(l1 & 127)
	if two {
		remaining += 128
	}
	total := uint32(len(hdr) + remaining)
	if total > M {
		vAssert("oversize-packet-refused-before-its-body-is-read", err != nil)
		vReach("oversize")
	} else {
		vAssert("packet-within-limit-accepted", err == nil)
		vReach("within")
	}
}
