package mqtt

import "github.com/mochi-mqtt/server/v2/packets"

// C23: everything written is a complete, well-formed packet of the client's protocol version; MQTT 3
// clients get no properties, only v3 return codes and no server-side DISCONNECT/AUTH; nothing exceeds
// the client's Maximum Packet Size; PUBLISH topics carry no wildcard; nothing follows a DISCONNECT.
// The transcripts of the connection-level harnesses (C13/C14/C16 with WF=1) are checked by
// vAssertWellFormed; the harnesses below target the size guard and the reason-code mappings.

// Maximum Packet Size: a packet larger than the client's limit is never written
func VerifC23MaxSize() {
	s, _ := vNewServer(nil)
	cl, c := vNewClient(s, "c1", 5)
	max := uint32(vRange(1, 40))
	cl.Properties.Props.MaximumPacketSize = max
	sub := packets.Subscription{Filter: "t", Qos: 0}
	s.Topics.Subscribe("c1", sub)
	cl.State.Subscriptions.Add("t", sub)
	n := vLen(vParam("PAYLOAD", 24))
	pk := packets.Packet{FixedHeader: packets.FixedHeader{Type: packets.Publish}, TopicName: "t", Payload: make([]byte, n), Origin: "pub"}
	if vBool() {
		pk.Properties.User = []packets.UserProperty{{Key: "k", Val: "vvvv"}}
	}
	s.publishToSubscribers(pk)
	vFlush(cl)
	// and an acknowledgement with a reason string near the limit
	_ = cl.WritePacket(s.buildAck(7, packets.Puback, 0, packets.Properties{}, packets.ErrQuotaExceeded))
	w := vParseWire(vConnWritten(c), 5)
	vAssertWellFormed(w, 5, max)
	vReach("end")
}

// every failure path of the SUBSCRIBE handler maps to a code an MQTT 3 client understands
func VerifC23SubackV3() {
	ver := byte(vConcrete(int(vByteIn("\x03\x04\x05")), 3, 5))
	caps := NewDefaultServerCapabilities()
	caps.Compatibilities.ObscureNotAuthorized = vBool()
	s, h := vNewServer(&Options{Capabilities: caps})
	deny := vBool()
	h.aclDeny = func(cl *Client, topic string, write bool) bool { return deny }
	cl, c := vNewClient(s, "c1", ver)
	fs := []string{"a", "a/b#", "$share/g/a", "$share//a"}
	sp := packets.Packet{ProtocolVersion: ver, FixedHeader: packets.FixedHeader{Type: packets.Subscribe, Qos: 1}, PacketID: 4}
	n := 1 + vChoose(2)
	for i := 0; i < n; i++ {
		sp.Filters = append(sp.Filters, packets.Subscription{Filter: fs[vChoose(4)], Qos: vByteIn("\x00\x01\x02"), NoLocal: ver == 5 && vBool()})
	}
	if vBool() {
		cl.State.Inflight.Set(packets.Packet{FixedHeader: packets.FixedHeader{Type: packets.Publish, Qos: 1}, PacketID: 4}) // id in use
	}
	_ = s.processPacket(cl, sp)
	// and an UNSUBSCRIBE
	_ = s.processPacket(cl, packets.Packet{ProtocolVersion: ver, FixedHeader: packets.FixedHeader{Type: packets.Unsubscribe, Qos: 1}, PacketID: 5, Filters: packets.Subscriptions{{Filter: fs[vChoose(4)]}}})
	vFlush(cl)
	w := vParseWire(vConnWritten(c), ver)
	vAssertWellFormed(w, ver, 0)
	vReach("end")
}

// error paths that make the broker disconnect a client: MQTT 3 clients must not be sent a DISCONNECT
func VerifC23DisconnectV3() {
	ver := byte(vConcrete(int(vByteIn("\x03\x04\x05")), 3, 5))
	s, h := vNewServer(nil)
	h.aclDeny = func(cl *Client, topic string, write bool) bool { return write }
	cl, c := vNewClient(s, "c1", ver)
	switch vChoose(3) {
	case 0: // QoS 1 publish refused by the ACL
		_ = s.receivePacket(cl, packets.Packet{ProtocolVersion: ver, FixedHeader: packets.FixedHeader{Type: packets.Publish, Qos: 1}, PacketID: 3, TopicName: "t", Payload: []byte{1}})
	case 1: // server shutting down
		_ = s.DisconnectClient(cl, packets.ErrServerShuttingDown)
	case 2: // session taken over
		_ = s.DisconnectClient(cl, packets.ErrSessionTakenOver)
	}
	vFlush(cl)
	w := vParseWire(vConnWritten(c), ver)
	vAssertWellFormed(w, ver, 0)
	vReach("end")
}

// VerifC23ProblemInfo: a client that sent Request Problem Information = 0 gets no Reason String and no User
// Property on anything but CONNACK, DISCONNECT (and PUBLISH), whatever else its CONNECT said (Maximum Packet
// Size or not), for exchanges the broker answers with reason codes >= 0x80.
func VerifC23ProblemInfo() {
	s, _ := vNewServer(nil)
	o := vConnOpts{ver: 5, id: "c1", clean: true, keepalive: 60, noProblem: true}
	if vBool() {
		o.mps = uint32(vRange(40, 400))
	}
	c := vDial(s, o)
	switch vChoose(4) {
	case 0: // QoS 1 publish to a topic clients may not publish to: PUBACK 0x90 or similar
		vSend(c, vPublishBytes("$SYS/x", 1, 1, 7, false, 5))
	case 1: // QoS 2 publish to it: PUBREC >= 0x80
		vSend(c, vPublishBytes("$SYS/x", 1, 2, 7, false, 5))
	case 2: // PUBREC for an unknown id: PUBREL 0x92
		vSend(c, []byte{0x50, 2, 0, 9})
	case 3: // SUBSCRIBE to an invalid filter: SUBACK 0x8F
		vSend(c, vSubscribeBytes(3, "a/#/b", 1, 5))
	}
	w := vParseWire(vConnWritten(c), 5)
	vAssert("transcript-parses", w.Trailing == 0)
	answered := false
	for _, p := range w.Pkts {
		if p.Type == packets.Connack || p.Type == packets.Disconnect || p.Type == packets.Publish {
			continue
		}
		answered = true
		for _, id := range p.PropIDs {
			vAssert("no-reason-string-or-user-property-when-problem-information-was-declined", id != 0x1F && id != 0x26)
		}
	}
	vAssert("the-exchange-was-answered", answered)
	vReach("end")
}
