package mqtt

import (
	"errors"

	"github.com/mochi-mqtt/server/v2/packets"
)

// vPubHook: a publish/auth/ACL hook whose behaviour per call is chosen by the solver.
type vPubHook struct {
	HookBase
	tag      byte
	mode     int // 0 pass, 1 modify (append tag), 2 ErrRejectPacket, 3 CodeSuccessIgnore, 4 packets.Code error, 5 plain error
	auth     bool
	acl      bool
	sawInput [][]byte
	order    *[]byte
}

func (h *vPubHook) ID() string { return "verif-pub" }
func (h *vPubHook) Provides(b byte) bool {
	return b == OnPublish || b == OnConnectAuthenticate || b == OnACLCheck || b == OnPacketRead
}
func (h *vPubHook) OnConnectAuthenticate(cl *Client, pk packets.Packet) bool { return h.auth }
func (h *vPubHook) OnACLCheck(cl *Client, topic string, write bool) bool    { return h.acl }
func (h *vPubHook) OnPacketRead(cl *Client, pk packets.Packet) (packets.Packet, error) {
	return pk, nil
}
func (h *vPubHook) OnPublish(cl *Client, pk packets.Packet) (packets.Packet, error) {
	*h.order = append(*h.order, h.tag)
	h.sawInput = append(h.sawInput, append([]byte{}, pk.Payload...))
	switch h.mode {
	case 1:
		pk.Payload = append(append([]byte{}, pk.Payload...), h.tag)
		return pk, nil
	case 2:
		return pk, packets.ErrRejectPacket
	case 3:
		return pk, packets.CodeSuccessIgnore
	case 4:
		return pk, packets.ErrQuotaExceeded
	case 5:
		return pk, errors.New("plain hook failure")
	}
	return pk, nil
}

// C19: hooks run in registration order, each modifying hook sees its predecessor's output; a publish
// that a hook rejects / marks ignored / answers with an error is never forwarded and never retained,
// for every protocol version and QoS; admission and access are the OR over the hooks.
func VerifC19Publish() {
	ver := byte(vParam("VER", 5))
	s := New(&Options{InlineClient: true})
	var order []byte
	n := 1 + vChoose(2)
	var hooks []*vPubHook
	for i := 0; i < n; i++ {
		h := &vPubHook{tag: byte(0xA0 + i), mode: vChoose(6), auth: true, acl: true, order: &order}
		_ = s.AddHook(h, nil)
		hooks = append(hooks, h)
	}
	pub, pc := vNewClient(s, "pub", ver)
	sub, sc := vNewClient(s, "sub", 5)
	ss := packets.Subscription{Filter: "t", Qos: 0}
	s.Topics.Subscribe("sub", ss)
	sub.State.Subscriptions.Add("t", ss)
	// every route a publish can take: a client subscription, an inline subscription, a share group
	inlineGot := 0
	_ = s.Subscribe("t", 1, func(cl *Client, sub packets.Subscription, pk packets.Packet) { inlineGot++ })
	shr, shc := vNewClient(s, "shr", 5)
	sh := packets.Subscription{Filter: "$share/g/t", Qos: 0}
	s.Topics.Subscribe("shr", sh)
	shr.State.Subscriptions.Add("$share/g/t", sh)
	q := byte(vConcrete(int(vByteIn("\x00\x01\x02")), 0, 2))
	retain := vBool()
	pk := packets.Packet{ProtocolVersion: ver, FixedHeader: packets.FixedHeader{Type: packets.Publish, Qos: q, Retain: retain}, TopicName: "t", Payload: []byte{1}}
	if q > 0 {
		pk.PacketID = 9
	}
	_ = s.processPacket(pub, pk)
	vFlush(sub)
	vFlush(pub)
	vFlush(shr)
	sharedGot := vCountPublishes(shc, 5, "t")
	// expected chain
	want := []byte{1}
	stopped := false
	called := 0
	for i, h := range hooks {
		called++
		vAssert("hook-called-in-registration-order", i < len(order) && order[i] == h.tag)
		if i < len(h.sawInput)+0 && len(h.sawInput) == 1 {
			in := h.sawInput[0]
			ok := len(in) == len(want)
			for k := 0; ok && k < len(in); k++ {
				ok = in[k] == want[k]
			}
			vAssert("hook-sees-predecessors-output", ok)
		}
		if h.mode == 1 {
			want = append(want, h.tag)
		}
		if h.mode >= 2 {
			stopped = true
			break
		}
	}
	vAssert("no-hook-called-after-a-rejecting-hook", len(order) == called)
	w := vParseWire(vConnWritten(sc), 5)
	got := 0
	for _, p := range w.Pkts {
		if p.Type == packets.Publish {
			got++
			ok := len(p.Payload) == len(want)
			for k := 0; ok && k < len(want); k++ {
				ok = p.Payload[k] == want[k]
			}
			if !stopped {
				vAssert("forwarded-payload-is-the-chain-output", ok)
			}
		}
	}
	if stopped {
		vAssert("rejected-publish-is-not-forwarded", got == 0)
		vAssert("rejected-publish-reaches-no-inline-subscriber", inlineGot == 0)
		vAssert("rejected-publish-reaches-no-share-group", sharedGot == 0)
		vAssert("rejected-publish-is-not-retained", s.Topics.Retained.Len() == 0)
	} else {
		vAssert("accepted-publish-is-forwarded-once", got == 1)
		vAssert("accepted-publish-reaches-the-inline-subscriber-once", inlineGot == 1)
		vAssert("accepted-publish-reaches-the-share-group-once", sharedGot == 1)
		if retain {
			vAssert("accepted-retained-publish-is-stored", s.Topics.Retained.Len() == 1)
		}
	}
	_ = pc
	vReach("end")
}

// admission = OR over authentication hooks, access = OR over ACL hooks
func VerifC19Or() {
	s := New(nil)
	var order []byte
	n := 1 + vChoose(3)
	anyAuth, anyACL := false, false
	for i := 0; i < n; i++ {
		h := &vPubHook{tag: byte(i), auth: vBool(), acl: vBool(), order: &order}
		_ = s.AddHook(h, nil)
		anyAuth = anyAuth || h.auth
		anyACL = anyACL || h.acl
	}
	cl, _ := vNewClient(s, "c1", 5)
	vAssert("admitted-iff-any-auth-hook-allows", s.hooks.OnConnectAuthenticate(cl, packets.Packet{}) == anyAuth)
	vAssert("permitted-iff-any-acl-hook-allows", s.hooks.OnACLCheck(cl, "t", vBool()) == anyACL)
	vReach("end")
}

// a packet rejected on read is not processed
type vReadHook struct {
	HookBase
	reject bool
}

func (h *vReadHook) ID() string           { return "verif-read" }
func (h *vReadHook) Provides(b byte) bool { return b == OnPacketRead }
func (h *vReadHook) OnPacketRead(cl *Client, pk packets.Packet) (packets.Packet, error) {
	if h.reject {
		return pk, packets.ErrRejectPacket
	}
	return pk, nil
}

func VerifC19Read() {
	s, _ := vNewServer(nil)
	rh := &vReadHook{reject: vBool()}
	_ = s.AddHook(rh, nil)
	cl, c := vNewClient(s, "c1", 4)
	vConnFeed(c, []byte{0xC0, 0x00}) // PINGREQ
	handled := 0
	err := cl.Read(func(cl *Client, pk packets.Packet) error { handled++; return s.processPacket(cl, pk) })
	if rh.reject {
		vAssert("packet-rejected-on-read-is-not-processed", handled == 0 && len(vConnWritten(c)) == 0)
	} else {
		vAssert("accepted-packet-is-processed", handled == 1 && len(vConnWritten(c)) == 2)
	}
	_ = err
	vReach("end")
}
