package mqtt

import "github.com/mochi-mqtt/server/v2/packets"

// C16: the will is published once when the connection ends without a normal DISCONNECT (or with 0x04),
// never after a normal DISCONNECT; with a will delay: when the delay elapses or the session ends,
// whichever is first, and not at all if a connection resuming the session (Clean Start 0) is
// established before then. Driven through the real connection handler on live connections.
func VerifC16Will() {
	s, _ := vNewServer(nil)
	// an observer subscribed to the will topic
	obs := vDial(s, vConnOpts{ver: 5, id: "obs", clean: true, keepalive: 60})
	vSend(obs, vSubscribeBytes(1, "w", 1, 5))
	ver := byte(vConcrete(int(vByteIn("\x04\x05")), 4, 5))
	delayed := ver == 5 && vBool()
	var delay uint32
	if delayed {
		delay = uint32(vRange(1, 1000))
	}
	wq := vByteIn("\x00\x01")
	wret := vBool()
	// an MQTT 5 client may also connect without a Session Expiry Interval: its session ends with the connection
	noExpiry := ver == 5 && vParam("NOSEI", 0) == 1
	c1 := vDial(s, vConnOpts{ver: ver, id: "c1", clean: false, keepalive: 60, will: true, willTopic: "w", willQos: byte(vConcrete(int(wq), 0, 1)), willRet: wret, willDelay: delay, seiSet: ver == 5 && !noExpiry, sei: 5000, rm: 5})
	now := vNow()
	end := vChoose(6)
	if ver != 5 && end == 1 {
		end = 2
	}
	lateWill := false
	resumed := false // has a Clean Start 0 connection for c1 been established since the end?
	sessionEnded := false
	switch end {
	case 0:
		vSend(c1, vDisconnectBytes(ver, 0, false))
	case 1:
		vSend(c1, vDisconnectBytes(ver, 0x04, true))
		sessionEnded = noExpiry
	case 2:
		vHangup(c1)
		sessionEnded = noExpiry
	case 3:
		vSend(c1, vConnectBytes(vConnOpts{ver: ver, id: "c1", keepalive: 60})) // second CONNECT: protocol error
		sessionEnded = noExpiry
	case 4:
		_ = vDial(s, vConnOpts{ver: ver, id: "c1", clean: false, keepalive: 60, seiSet: ver == 5, sei: 5000, rm: 5})
		resumed = true
	case 5:
		_ = vDial(s, vConnOpts{ver: ver, id: "c1", clean: true, keepalive: 60, rm: 5})
		sessionEnded = true
	}
	vDrain()
	count := func() int {
		w := vParseWire(vConnWritten(obs), 5)
		n := 0
		for _, p := range w.Pkts {
			if p.Type == packets.Publish && p.Topic == "w" {
				n++
				vAssert("will-has-requested-payload", len(p.Payload) == 1 && p.Payload[0] == 'W')
			}
		}
		return n
	}
	normal := end == 0
	if normal {
		vAssert("no-will-after-normal-disconnect", count() == 0)
	} else if !delayed {
		vAssert("will-published-once-at-connection-end", count() == 1)
	} else if sessionEnded {
		if end == 5 {
			vAssert("kf-delayed-will-lost-when-clean-start-1-connection-ends-the-session", count() == 1)
			vAssert("delayed-will-published-when-session-ends", count() == 1)
		} else {
			// a client without session expiry: the session ended with the connection, the will is due now. The
			// broker waits for the delay instead (recorded class, asserted at the end of the scenario so that
			// what happens at the later ticks is still checked)
			lateWill = count() == 0
		}
	} else {
		vAssert("delayed-will-not-published-early", count() == 0)
		// and a will that has not been published is not in the retained store either (C05: the store reflects
		// what was actually published)
		vAssert("unpublished-will-is-not-retained", s.Topics.Retained.Len() == 0)
	}
	// later events: housekeeping tick, optional resuming connection, housekeeping tick
	due := false
	for k := 0; k < 2; k++ {
		dt := now + int64(vRange(0, 2000))
		s.sendDelayedLWT(dt)
		vDrain()
		if delayed && !normal && !resumed && !sessionEnded && dt > now+int64(delay) {
			due = true
		}
		if k == 0 && end <= 3 && vBool() {
			_ = vDial(s, vConnOpts{ver: ver, id: "c1", clean: false, keepalive: 60, seiSet: ver == 5, sei: 5000, rm: 5})
			if !due {
				resumed = true
			}
		}
	}
	n := count()
	switch {
	case normal:
		vAssert("never-a-will-after-normal-disconnect", n == 0)
	case !delayed:
		vAssert("will-published-exactly-once", n == 1)
	case sessionEnded && lateWill:
		vAssert("will-of-an-ended-session-never-published-twice", n <= 1)
		vAssert("kf-delayed-will-waits-for-the-delay-although-the-session-ended-with-the-connection", false)
	case sessionEnded:
		vAssert("will-published-exactly-once-after-session-end", n == 1)
	case due:
		vAssert("delayed-will-published-once-after-the-delay", n == 1)
	case resumed && end == 4:
		vAssert("kf-delayed-will-registered-after-the-resuming-connection-cancelled-it", n == 0)
		vAssert("no-will-when-session-resumed-before-the-delay", n == 0)
	case resumed:
		vAssert("no-will-when-session-resumed-before-the-delay", n == 0)
	default:
		vAssert("delayed-will-not-published-before-the-delay", n == 0)
	}
	if n >= 1 && wret {
		vAssert("retained-will-is-in-the-retained-store", s.Topics.Retained.Len() == 1)
	}
	vReach("end")
}

// the race of the statement's last clause: a Clean Start 0 connection takes over a LIVE connection whose
// will has a delay. Explored with a pre-emption bound; the hook event order tells the schedules apart.
func VerifC16TakeoverRace() {
	s, h := vNewServer(nil)
	obs := vDial(s, vConnOpts{ver: 5, id: "obs", clean: true, keepalive: 60})
	vSend(obs, vSubscribeBytes(1, "w", 0, 5))
	_ = vDial(s, vConnOpts{ver: 5, id: "c1", clean: false, keepalive: 60, will: true, willTopic: "w", willDelay: 5, seiSet: true, sei: 5000, rm: 5})
	now := vNow()
	_ = vDial(s, vConnOpts{ver: 5, id: "c1", clean: false, keepalive: 60, seiSet: true, sei: 5000, rm: 5})
	vDrain()
	s.sendDelayedLWT(now + 100)
	vDrain()
	n := vCountPublishes(obs, 5, "w")
	// schedule class: had the old connection finished its teardown (will registered, OnDisconnect fired)
	// before the new connection's CONNACK was written (which precedes the cancellation)?
	disc, ack2, acks := -1, -1, 0
	for i, e := range h.events {
		if e == "disc:c1" && disc < 0 {
			disc = i
		}
		if e == "connack:c1" {
			acks++
			if acks == 2 {
				ack2 = i
			}
		}
	}
	vAssert("both-connections-acknowledged", ack2 >= 0)
	if disc >= 0 && disc < ack2 {
		vAssert("no-will-when-old-teardown-finished-before-the-resume-was-acknowledged", n == 0)
		vReach("teardown-first")
	} else {
		vAssert("kf-delayed-will-registered-after-the-resuming-connection-cancelled-it", n == 0)
		vReach("teardown-late")
	}
}
