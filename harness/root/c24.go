package mqtt

import "github.com/mochi-mqtt/server/v2/packets"

// C24 outbound: every PUBLISH written carries a non-empty topic, or an alias that an EARLIER PUBLISH
// written on the same connection bound to that topic; aliases never exceed the client's Topic Alias
// Maximum and none is used when it is 0.
func VerifC24Outbound() {
	tam := uint16(vChoose(3)) // client's Topic Alias Maximum 0..2
	R := uint16(1 + vChoose(2))
	caps := NewDefaultServerCapabilities()
	caps.MaximumClientWritesPending = int32(1 + vChoose(2)) // small outbound queue so that drops happen
	s, h := vNewServer(&Options{Capabilities: caps})
	c := vConn()
	cl := s.NewClient(c, "t1", "c1", false)
	cl.ParseConnect("t1", packets.Packet{ProtocolVersion: 5, Connect: packets.ConnectParams{ClientIdentifier: "c1", Keepalive: 60}, Properties: packets.Properties{ReceiveMaximum: R, TopicAliasMaximum: tam}})
	s.Clients.Add(cl)
	sub := packets.Subscription{Filter: "#", Qos: 1}
	s.Topics.Subscribe("c1", sub)
	cl.State.Subscriptions.Add("#", sub)
	topics := []string{"x", "y", "z"}
	n := vParam("MSGS", 3)
	for i := 0; i < n; i++ {
		q := vByteIn("\x00\x01")
		s.publishToSubscribers(packets.Packet{FixedHeader: packets.FixedHeader{Type: packets.Publish, Qos: q}, TopicName: topics[vChoose(3)], Payload: []byte{byte(1 + i)}, Origin: "pub"})
		if vBool() {
			vFlush(cl) // the write loop may or may not have caught up
		}
	}
	vFlush(cl)
	w := vParseWire(vConnWritten(c), 5)
	vAssert("transcript-parses", w.Trailing == 0)
	bound := map[uint16]string{}
	for _, p := range w.Pkts {
		if p.Type != packets.Publish {
			continue
		}
		if p.HasAlias {
			vAssert("alias-within-client-maximum", p.Alias >= 1 && p.Alias <= tam)
		}
		if p.Topic == "" {
			_, ok := bound[p.Alias]
			// recorded class: the binding was made by a packet that was then dropped (queue full) or held back
			heldBack := false
			for _, ip := range cl.State.Inflight.GetAll(false) {
				if ip.Expiry < 0 {
					heldBack = true
				}
			}
			if h.dropped > 0 || h.qosDropped > 0 || heldBack {
				vAssert("kf-alias-bound-by-a-packet-that-was-never-written", !p.HasAlias || ok || tam == 0)
			}
			vAssert("empty-topic-only-with-alias-bound-earlier-on-this-connection", p.HasAlias && ok)
		} else if p.HasAlias {
			bound[p.Alias] = p.Topic
		}
	}
	vReach("end")
}

// after a reconnect the new connection has no alias bindings: everything resent carries its topic
func VerifC24Resend() {
	s, _ := vNewServer(nil)
	c := vConn()
	cl := s.NewClient(c, "t1", "c1", false)
	cpk := packets.Packet{ProtocolVersion: 5, Connect: packets.ConnectParams{ClientIdentifier: "c1", Keepalive: 60}, Properties: packets.Properties{ReceiveMaximum: 8, TopicAliasMaximum: 2}}
	cl.ParseConnect("t1", cpk)
	s.Clients.Add(cl)
	sub := packets.Subscription{Filter: "x", Qos: 1}
	s.Topics.Subscribe("c1", sub)
	cl.State.Subscriptions.Add("x", sub)
	for i := 0; i < 2; i++ {
		s.publishToSubscribers(packets.Packet{FixedHeader: packets.FixedHeader{Type: packets.Publish, Qos: 1}, TopicName: "x", Payload: []byte{byte(1 + i)}, Origin: "pub"})
	}
	vFlush(cl)
	if vBool() {
		// the client acknowledges the first message (the one that carried the topic) before the connection drops
		_ = s.processPacket(cl, packets.Packet{ProtocolVersion: 5, FixedHeader: packets.FixedHeader{Type: packets.Puback}, PacketID: 1})
	}
	cl.Stop(nil)
	c2 := vConn()
	cl2 := s.NewClient(c2, "t1", "c1", false)
	cl2.ParseConnect("t1", cpk)
	present := s.inheritClientSession(cpk, cl2)
	s.Clients.Add(cl2)
	vAssert("session-present", present)
	_ = cl2.ResendInflightMessages(true)
	w := vParseWire(vConnWritten(c2), 5)
	bound := map[uint16]string{}
	n := 0
	for _, p := range w.Pkts {
		if p.Type != packets.Publish {
			continue
		}
		n++
		if p.Topic == "" {
			_, ok := bound[p.Alias]
			vAssert("kf-resent-message-keeps-the-old-connections-alias", p.HasAlias && ok)
			vAssert("resent-publish-resolvable-on-new-connection", p.HasAlias && ok)
		} else if p.HasAlias {
			bound[p.Alias] = p.Topic
		}
	}
	vAssert("unacknowledged-resent", n >= 1)
	vReach("end")
}

// C24 inbound: alias above the broker's maximum, or empty topic with an alias never bound on this
// connection, is rejected and not routed; a bound alias resolves to the last topic bound to it.
func VerifC24Inbound() {
	caps := NewDefaultServerCapabilities()
	caps.TopicAliasMaximum = uint16(vChoose(3)) // 0..2
	s, _ := vNewServer(&Options{Capabilities: caps})
	pub, _ := vNewClient(s, "pub", 5)
	pub.State.TopicAliases = NewTopicAliases(caps.TopicAliasMaximum)
	sub, sc := vNewClient(s, "sub", 5)
	ss := packets.Subscription{Filter: "#", Qos: 0}
	s.Topics.Subscribe("sub", ss)
	sub.State.Subscriptions.Add("#", ss)
	bound := map[uint16]string{}
	topics := []string{"", "x", "y"}
	n := vParam("MSGS", 2)
	for i := 0; i < n; i++ {
		alias := uint16(vChoose(4)) // 0 = no alias property
		topic := topics[vChoose(3)]
		pk := packets.Packet{ProtocolVersion: 5, FixedHeader: packets.FixedHeader{Type: packets.Publish}, TopicName: topic, Payload: []byte{byte(1 + i)}}
		if alias > 0 {
			pk.Properties.TopicAliasFlag = true
			pk.Properties.TopicAlias = alias
		}
		before := len(vParseWire(vConnWritten(sc), 5).Pkts)
		err := s.processPacket(pub, pk)
		vFlush(sub)
		w := vParseWire(vConnWritten(sc), 5)
		routed := len(w.Pkts) - before
		vAssert("at-most-one-copy", routed <= 1)
		_, isBound := bound[alias]
		mustReject := alias > caps.TopicAliasMaximum || (topic == "" && (alias == 0 || !isBound))
		if mustReject {
			vAssert("unresolvable-publish-is-rejected", err != nil)
			vAssert("unresolvable-publish-is-not-routed", routed == 0)
		} else {
			want := topic
			if topic == "" {
				want = bound[alias]
			}
			vAssert("resolvable-publish-is-routed", routed == 1)
			if routed == 1 {
				vAssert("routed-under-the-bound-topic", w.Pkts[len(w.Pkts)-1].Topic == want)
			}
			if alias > 0 && topic != "" {
				bound[alias] = topic
			}
		}
	}
	vReach("end")
}

// VerifC24AfterResume: a connection that resumes a session starts with no alias bindings of its own: whatever
// the old connection had bound (topics of delivered QoS 0 messages, of messages still in flight), every PUBLISH
// written on the new connection after the resend carries its topic or an alias bound earlier on THIS connection.
func VerifC24AfterResume() {
	s, _ := vNewServer(nil)
	tam := uint16(1 + vChoose(2))
	cpk := packets.Packet{ProtocolVersion: 5, Connect: packets.ConnectParams{ClientIdentifier: "c1", Keepalive: 60}, Properties: packets.Properties{ReceiveMaximum: 8, TopicAliasMaximum: tam}}
	c := vConn()
	cl := s.NewClient(c, "t1", "c1", false)
	cl.ParseConnect("t1", cpk)
	s.Clients.Add(cl)
	sub := packets.Subscription{Filter: "#", Qos: 1}
	s.Topics.Subscribe("c1", sub)
	cl.State.Subscriptions.Add("#", sub)
	topics := []string{"x", "y"}
	// old connection: two deliveries, each QoS 0 or 1 on x or y (a QoS 1 one stays unacknowledged)
	inflight := false
	for i := 0; i < 2; i++ {
		q := byte(vChoose(2))
		if q == 1 {
			inflight = true
		}
		s.publishToSubscribers(packets.Packet{FixedHeader: packets.FixedHeader{Type: packets.Publish, Qos: q}, TopicName: topics[vChoose(2)], Payload: []byte{byte(1 + i)}, Origin: "pub"})
		vFlush(cl)
	}
	cl.Stop(nil)
	c2 := vConn()
	cpk2 := cpk
	cpk2.Properties.TopicAliasMaximum = uint16(1 + vChoose(2)) // the new connection's own maximum
	cl2 := s.NewClient(c2, "t1", "c1", false)
	cl2.ParseConnect("t1", cpk2)
	present := s.inheritClientSession(cpk2, cl2)
	s.Clients.Add(cl2)
	vAssert("session-present", present)
	_ = cl2.ResendInflightMessages(true)
	vFlush(cl2)
	resent := len(vParseWire(vConnWritten(c2), 5).Pkts)
	_ = inflight
	// new traffic on both topics
	for i := 0; i < 2; i++ {
		s.publishToSubscribers(packets.Packet{FixedHeader: packets.FixedHeader{Type: packets.Publish, Qos: 0}, TopicName: topics[i], Payload: []byte{byte(9 + i)}, Origin: "pub"})
		vFlush(cl2)
	}
	w := vParseWire(vConnWritten(c2), 5)
	bound := map[uint16]string{}
	for i, p := range w.Pkts {
		if p.Type != packets.Publish {
			continue
		}
		if p.HasAlias {
			if i < resent {
				// recorded class: a resent message is written as it was stored, with the old connection's alias
				vAssert("kf-resent-message-keeps-the-old-connections-alias", p.Alias >= 1 && p.Alias <= cpk2.Properties.TopicAliasMaximum)
			}
			vAssert("alias-within-the-new-connections-maximum", p.Alias >= 1 && p.Alias <= cpk2.Properties.TopicAliasMaximum)
		}
		if p.Topic == "" {
			_, ok := bound[p.Alias]
			if i >= resent {
				vAssert("publish-after-resume-resolvable-on-the-new-connection", p.HasAlias && ok)
			}
		} else if p.HasAlias {
			bound[p.Alias] = p.Topic
		}
	}
	vReach("end")
}
