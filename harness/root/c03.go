package mqtt

import "github.com/mochi-mqtt/server/v2/packets"

// C03: in any history of subscribes, unsubscribes, publishes and disconnects a connected client gets a
// message exactly when, at publish time, it held a matching subscription it may read and whose No Local
// option does not exclude it; at most one copy per publish; payload and the five carried properties
// unchanged; the only omissions are the reported drops.
func VerifC03History() {
	s, h := vNewServer(nil)
	readDenied := vBool() // client B may not read topic "a/b"
	h.aclDeny = func(cl *Client, topic string, write bool) bool { return !write && readDenied && cl.ID == "B" && topic == "a/b" }
	ids := []string{"A", "B"}
	var cls [2]*Client
	var conns [2]interface{ Close() error }
	cA, connA := vNewClient(s, "A", 5)
	cB, connB := vNewClient(s, "B", byte(vConcrete(int(vByteIn("\x04\x05")), 4, 5)))
	cls[0], cls[1] = cA, cB
	conns[0], conns[1] = connA, connB
	filters := []string{"a/b", "a/+", "#", "x"}
	// model: subscription set per client: filter -> (present, nolocal)
	var has [2][4]bool
	var nolocal [2][4]bool
	connected := [2]bool{true, true}
	steps := vParam("STEPS", 3)
	pid := uint16(10)
	for i := 0; i < steps; i++ {
		switch vChoose(4) {
		case 0: // subscribe
			ci, fi := vChoose(2), vChoose(4)
			if !connected[ci] {
				continue
			}
			nl := cls[ci].Properties.ProtocolVersion == 5 && vBool()
			pid++
			_ = s.processPacket(cls[ci], packets.Packet{ProtocolVersion: cls[ci].Properties.ProtocolVersion, FixedHeader: packets.FixedHeader{Type: packets.Subscribe, Qos: 1}, PacketID: pid, Filters: packets.Subscriptions{{Filter: filters[fi], Qos: 1, NoLocal: nl}}})
			if !(ids[ci] == "B" && readDenied && filters[fi] == "a/b") {
				has[ci][fi], nolocal[ci][fi] = true, nl
			}
		case 1: // unsubscribe
			ci, fi := vChoose(2), vChoose(4)
			if !connected[ci] {
				continue
			}
			pid++
			_ = s.processPacket(cls[ci], packets.Packet{ProtocolVersion: cls[ci].Properties.ProtocolVersion, FixedHeader: packets.FixedHeader{Type: packets.Unsubscribe, Qos: 1}, PacketID: pid, Filters: packets.Subscriptions{{Filter: filters[fi]}}})
			has[ci][fi] = false
		case 2: // publish from A to a/b with properties
			if !connected[0] {
				continue
			}
			before := [2]int{}
			for k := 0; k < 2; k++ {
				vFlush(cls[k])
				before[k] = vCountPublishes(connOf(conns[k]), cls[k].Properties.ProtocolVersion, "a/b")
			}
			pk := packets.Packet{ProtocolVersion: 5, FixedHeader: packets.FixedHeader{Type: packets.Publish}, TopicName: "a/b", Payload: []byte{byte(100 + i)}}
			pk.Properties.ContentType = "ct"
			pk.Properties.ResponseTopic = "rt"
			pk.Properties.CorrelationData = []byte{7}
			pk.Properties.User = []packets.UserProperty{{Key: "k", Val: "v"}}
			_ = s.processPacket(cls[0], pk)
			for k := 0; k < 2; k++ {
				vFlush(cls[k])
				ver := cls[k].Properties.ProtocolVersion
				got := vCountPublishes(connOf(conns[k]), ver, "a/b") - before[k]
				entitled := false
				for fi := 0; fi < 3; fi++ { // the first three filters match a/b
					if has[k][fi] && !(nolocal[k][fi] && k == 0) {
						entitled = true
					}
				}
				// No Local on ANY matching subscription of the publisher excludes the merged delivery in this broker;
				// the statement asks for delivery when at least one matching subscription does not exclude it
				if k == 1 && readDenied {
					entitled = false
				}
				if !connected[k] {
					entitled = false
				}
				vAssert("at-most-one-copy-per-publish", got <= 1)
				mixedNoLocal := false
				if k == 0 {
					anyNL, anyPlain := false, false
					for fi := 0; fi < 3; fi++ {
						if has[0][fi] && nolocal[0][fi] {
							anyNL = true
						}
						if has[0][fi] && !nolocal[0][fi] {
							anyPlain = true
						}
					}
					mixedNoLocal = anyNL && anyPlain
				}
				if entitled && mixedNoLocal {
					// recorded class: Subscription.Merge ORs No Local over the publisher's matching subscriptions
					vAssert("kf-no-local-on-one-subscription-suppresses-delivery-through-another", got == 1)
				}
				if entitled {
					vAssert("entitled-connected-client-receives-the-message", got == 1)
				} else {
					vAssert("non-entitled-client-receives-nothing", got == 0)
				}
				if got == 1 && ver == 5 {
					w := vParseWire(vConnWritten(connOf(conns[k])), 5)
					p := w.Pkts[len(w.Pkts)-1]
					vAssert("payload-unchanged", len(p.Payload) == 1 && p.Payload[0] == byte(100+i))
					nprops := 0
					for _, id := range p.PropIDs {
						if id == 3 || id == 8 || id == 9 || id == 38 {
							nprops++
						}
					}
					vAssert("content-type-response-topic-correlation-user-carried", nprops == 4)
				}
			}
		case 3: // B disconnects normally (clean session: its subscriptions go away)
			if connected[1] {
				cB.Properties.Clean = true
				cB.Stop(nil)
				s.UnsubscribeClient(cB)
				s.Clients.Delete("B")
				connected[1] = false
				has[1] = [4]bool{}
			}
		}
	}
	vReach("end")
}

// pruning of empty index nodes (after an unrelated unsubscribe or a cleared retained message) must not
// cost a subscriber its deliveries
func VerifC03Pruning() {
	s, _ := vNewServer(nil)
	cA, _ := vNewClient(s, "A", 5)
	cB, connB := vNewClient(s, "B", 5)
	kinds := []string{"a/b", "$share/g/a/b", "a/#", "a/+"}
	f := kinds[vChoose(4)]
	_ = s.processPacket(cB, packets.Packet{ProtocolVersion: 5, FixedHeader: packets.FixedHeader{Type: packets.Subscribe, Qos: 1}, PacketID: 2, Filters: packets.Subscriptions{{Filter: f, Qos: 0}}})
	// a neighbour operation that makes the index prune nodes
	near := []string{"a/b/c", "a/b", "a", "a/c"}
	nf := near[vChoose(4)]
	switch vChoose(3) {
	case 0: // another client subscribes and unsubscribes nearby
		_ = s.processPacket(cA, packets.Packet{ProtocolVersion: 5, FixedHeader: packets.FixedHeader{Type: packets.Subscribe, Qos: 1}, PacketID: 3, Filters: packets.Subscriptions{{Filter: nf, Qos: 0}}})
		_ = s.processPacket(cA, packets.Packet{ProtocolVersion: 5, FixedHeader: packets.FixedHeader{Type: packets.Unsubscribe, Qos: 1}, PacketID: 4, Filters: packets.Subscriptions{{Filter: nf}}})
	case 1: // a retained message nearby is set and cleared
		_ = s.processPacket(cA, packets.Packet{ProtocolVersion: 5, FixedHeader: packets.FixedHeader{Type: packets.Publish, Retain: true}, TopicName: nf, Payload: []byte{5}})
		vFlush(cB)
		_ = s.processPacket(cA, packets.Packet{ProtocolVersion: 5, FixedHeader: packets.FixedHeader{Type: packets.Publish, Retain: true}, TopicName: nf})
	case 2: // a client that holds no such subscription unsubscribes from B's own filter
		_ = s.processPacket(cA, packets.Packet{ProtocolVersion: 5, FixedHeader: packets.FixedHeader{Type: packets.Unsubscribe, Qos: 1}, PacketID: 4, Filters: packets.Subscriptions{{Filter: f}}})
	}
	vFlush(cB)
	before := len(vParseWire(vConnWritten(connB), 5).Pkts)
	_ = s.processPacket(cA, packets.Packet{ProtocolVersion: 5, FixedHeader: packets.FixedHeader{Type: packets.Publish}, TopicName: "a/b", Payload: []byte{9}})
	vFlush(cB)
	w := vParseWire(vConnWritten(connB), 5)
	got := 0
	for _, p := range w.Pkts[before:] {
		if p.Type == packets.Publish && len(p.Payload) == 1 && p.Payload[0] == 9 {
			got++
		}
	}
	vAssert("subscriber-still-receives-after-index-pruning", got == 1)
	vReach("end")
}

// VerifC03Resubscribe: whether a client receives its own publish follows the No Local option of the subscription
// in force - the one a later SUBSCRIBE on the same filter replaced the first with - also after the session has
// been resumed by a new connection (the index is rebuilt from the session then).
func VerifC03Resubscribe() {
	s, _ := vNewServer(nil)
	nl1, nl2 := vBool(), vBool()
	sub := func(id uint16, nl bool) []byte {
		opts := byte(1)
		if nl {
			opts |= 0x04
		}
		b := append(vU16b(id), 0)
		b = append(b, vStrb("a")...)
		b = append(b, opts)
		return append([]byte{packets.Subscribe<<4 | 2, byte(len(b))}, b...)
	}
	opts := vConnOpts{ver: 5, id: "c1", clean: false, keepalive: 60, seiSet: true, sei: 100, rm: 10}
	c := vDial(s, opts)
	vSend(c, sub(1, nl1))
	vSend(c, sub(2, nl2))
	if vBool() {
		if vBool() {
			vHangup(c)
		}
		c = vDial(s, opts)
		vReach("resumed")
	}
	before := vCountPublishes(c, 5, "a")
	vSend(c, vPublishBytes("a", 7, 0, 0, false, 5))
	got := vCountPublishes(c, 5, "a") - before
	if nl2 {
		vAssert("no-local-subscription-in-force-suppresses-own-publish", got == 0)
	} else {
		vAssert("own-publish-delivered-when-the-subscription-in-force-allows-it", got == 1)
	}
	vReach("end")
}
