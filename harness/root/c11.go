package mqtt

import "github.com/mochi-mqtt/server/v2/packets"

// C11: Receive Maximum in both directions, observed on the wire and independent of the broker's counters.
// Script of n steps chosen by the solver among: broker delivers a QoS1/2 message; client acknowledges
// (PUBACK / PUBREC / PUBCOMP) an id it has actually received; client publishes QoS 0/1/2; client PUBREL.
func VerifC11Flow() {
	R := 1 + vChoose(2) // client Receive Maximum 1..2
	S := 1 + vChoose(2) // server Receive Maximum 1..2
	caps := NewDefaultServerCapabilities()
	caps.ReceiveMaximum = uint16(S)
	s, h := vNewServer(&Options{Capabilities: caps})
	h.aclDeny = func(cl *Client, topic string, write bool) bool { return write && topic == "denied" }
	c := vConn()
	cl := s.NewClient(c, "t1", "c1", false)
	cl.ParseConnect("t1", packets.Packet{ProtocolVersion: 5, Connect: packets.ConnectParams{ClientIdentifier: "c1", Keepalive: 60}, Properties: packets.Properties{ReceiveMaximum: uint16(R)}})
	s.Clients.Add(cl)
	// the subscription's QoS: with 0 every message goes out at QoS 0 and must use no flow-control quota at all
	sq := byte(2)
	if vParam("SUBQOS0", 0) == 1 {
		sq = 0
	}
	sub := packets.Subscription{Filter: "a", Qos: sq}
	s.Topics.Subscribe("c1", sub)
	cl.State.Subscriptions.Add("a", sub)

	// observable model
	outQos := map[uint16]byte{}  // outbound QoS>0 PUBLISH seen on the wire and not yet PUBACK/PUBCOMP-ed
	outRec := map[uint16]bool{}  // ... for which the client already sent PUBREC
	inOpen := map[uint16]bool{}  // client's own QoS 2 publishes not yet released
	outbound2Open := 0           // outbound QoS 2 flows between the client's PUBREC and PUBCOMP
	inboundReleased := 0         // client's QoS 2 publishes completed with PUBREL so far
	nextClientID := uint16(100)
	seen := 0
	published, delivered := 0, 0
	delivered0 := 0 // QoS 0 copies on the wire
	heldEver := false
	steps := vParam("STEPS", 3)
	for i := 0; i < steps; i++ {
		switch vChoose(5 + vParam("EXTRA", 2)) {
		case 0: // broker delivers a message to the client
			q := vByteIn("\x01\x02")
			if len(outQos) >= R {
				heldEver = true // the client's window is full: this message is held back by flow control
			}
			s.publishToSubscribers(packets.Packet{FixedHeader: packets.FixedHeader{Type: packets.Publish, Qos: q}, TopicName: "a", Payload: []byte{byte(i)}, Origin: "other"})
			published++
		case 1: // client acknowledges an outbound message it holds (PUBACK for q1, PUBREC for q2)
			for id, q := range outQos {
				if q == 1 {
					_ = s.processPacket(cl, packets.Packet{ProtocolVersion: 5, FixedHeader: packets.FixedHeader{Type: packets.Puback}, PacketID: id})
					delete(outQos, id)
				} else if !outRec[id] {
					_ = s.processPacket(cl, packets.Packet{ProtocolVersion: 5, FixedHeader: packets.FixedHeader{Type: packets.Pubrec}, PacketID: id})
					outRec[id] = true
					outbound2Open++
				} else {
					outbound2Open--
					_ = s.processPacket(cl, packets.Packet{ProtocolVersion: 5, FixedHeader: packets.FixedHeader{Type: packets.Pubcomp}, PacketID: id})
					delete(outQos, id)
					delete(outRec, id)
				}
				break
			}
		case 2: // client publishes with its own id (never colliding with broker ids: C10's subject)
			q := vByteIn("\x00\x01\x02")
			qq := byte(vConcrete(int(q), 0, 2))
			if qq > 0 && len(inOpen) >= S {
				continue // a compliant client keeps within the broker's Receive Maximum
			}
			id := uint16(0)
			if qq > 0 {
				nextClientID++
				id = nextClientID
			}
			_ = s.processPacket(cl, packets.Packet{ProtocolVersion: 5, FixedHeader: packets.FixedHeader{Type: packets.Publish, Qos: qq}, PacketID: id, TopicName: "zz", Payload: []byte{9}})
			if qq == 2 {
				inOpen[id] = true
			}
		case 3: // client releases one of its QoS 2 publishes
			for id := range inOpen {
				_ = s.processPacket(cl, packets.Packet{ProtocolVersion: 5, FixedHeader: packets.FixedHeader{Type: packets.Pubrel, Qos: 1}, PacketID: id})
				delete(inOpen, id)
				inboundReleased++
				break
			}
		case 5: // client retransmits (DUP) one of its QoS 2 publishes that is still awaiting PUBREL
			for id := range inOpen {
				_ = s.processPacket(cl, packets.Packet{ProtocolVersion: 5, FixedHeader: packets.FixedHeader{Type: packets.Publish, Qos: 2, Dup: true}, PacketID: id, TopicName: "zz", Payload: []byte{9}})
				break
			}
		case 6: // client publishes QoS 1 to a topic its write permission denies: refused with 0x87, hence acknowledged
			if len(inOpen) >= S {
				continue
			}
			nextClientID++
			_ = s.processPacket(cl, packets.Packet{ProtocolVersion: 5, FixedHeader: packets.FixedHeader{Type: packets.Publish, Qos: 1}, PacketID: nextClientID, TopicName: "denied", Payload: []byte{9}})
		case 4: // spurious PUBCOMP for an id that is in no exchange
			_ = s.processPacket(cl, packets.Packet{ProtocolVersion: 5, FixedHeader: packets.FixedHeader{Type: packets.Pubcomp}, PacketID: 999})
		}
		vFlush(cl)
		// read what reached the wire since the last step
		w := vParseWire(vConnWritten(c), 5)
		vAssert("transcript-parses", w.Trailing == 0)
		for ; seen < len(w.Pkts); seen++ {
			p := w.Pkts[seen]
			if p.Type == packets.Publish && (p.Flags>>1)&3 > 0 {
				if _, dup := outQos[p.ID]; !dup {
					delivered++
				}
				outQos[p.ID] = (p.Flags >> 1) & 3
			}
			if p.Type == packets.Publish && (p.Flags>>1)&3 == 0 && p.Topic == "a" {
				delivered0++
			}
			if p.Type == packets.Disconnect {
				is93 := p.HasRsn && p.Reason == 0x93
				// recorded class: an outbound QoS 2 flow in its PUBREC..PUBCOMP phase is charged to the receive quota
				if outbound2Open > 0 {
					vAssert("kf-0x93-while-an-outbound-qos2-flow-awaits-pubcomp", !is93)
				}
				vAssert("never-0x93-for-a-compliant-client", !is93)
			}
		}
		// recorded class: completing an inbound QoS 2 exchange (PUBREL) credits the send quota
		if inboundReleased > 0 {
			vAssert("kf-receive-maximum-exceeded-after-client-pubrel", len(outQos) <= R)
		}
		vAssert("unacknowledged-outbound-within-client-receive-maximum", len(outQos) <= R)
		if sq == 0 && !cl.Closed() {
			// QoS 0 deliveries are outside flow control: each is written at once, whatever was published before
			vAssert("qos0-deliveries-are-never-held-back-by-receive-maximum", delivered0 == published)
		}
	}
	// progress: with nothing outstanding, everything published so far has been sent
	if len(outQos) == 0 && !cl.Closed() && sq > 0 {
		if heldEver {
			// recorded class (C09/C12): the in-flight record of a message released from the flow-control queue is
			// deleted when it is written, so its acknowledgement restores no quota and what is behind it starves
			vAssert("kf-messages-behind-a-released-deferred-message-starve", delivered == published || cl.State.Inflight.Len() == 0 || delivered >= published)
		}
		vAssert("nothing-left-deferred-when-window-is-empty", delivered == published || cl.State.Inflight.Len() == 0 || delivered >= published)
	}
	vReach("end")
}
