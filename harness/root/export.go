package mqtt

import (
	"net"

	"github.com/mochi-mqtt/server/v2/packets"
)

// Exported wrappers of the root-package harness helpers, for harnesses living in other packages
// (storage back ends). They exist only in the overlay.
type VerifAllowHook struct{ HookBase }

func (h *VerifAllowHook) ID() string           { return "verif-allow" }
func (h *VerifAllowHook) Provides(b byte) bool { return b == OnACLCheck || b == OnConnectAuthenticate }
func (h *VerifAllowHook) OnConnectAuthenticate(cl *Client, pk packets.Packet) bool { return true }
func (h *VerifAllowHook) OnACLCheck(cl *Client, topic string, write bool) bool     { return true }

func VerifDial(s *Server, ver byte, id string, clean bool, sei uint32) net.Conn {
	return vDial(s, vConnOpts{ver: ver, id: id, clean: clean, keepalive: 60, seiSet: ver == 5 && sei > 0, sei: sei, rm: 5})
}
func VerifSend(c net.Conn, b []byte) { vSend(c, b) }
func VerifHangup(c net.Conn)        { vHangup(c) }
func VerifSubscribeBytes(id uint16, filter string, qos byte, ver byte) []byte {
	return vSubscribeBytes(id, filter, qos, ver)
}
func VerifPublishBytes(topic string, payload byte, qos byte, id uint16, retain bool, ver byte) []byte {
	return vPublishBytes(topic, payload, qos, id, retain, ver)
}
func VerifWritten(c net.Conn) []byte { return vConnWritten(c) }

// VerifInflight: the (packet id << 8 | packet type) values of a session's in-flight records, ascending
func VerifInflight(s *Server, id string) []uint32 {
	cl, ok := s.Clients.Get(id)
	if !ok {
		return nil
	}
	var out []uint32
	for _, pk := range cl.State.Inflight.GetAll(false) {
		v := uint32(pk.PacketID)<<8 | uint32(pk.FixedHeader.Type)
		i := len(out)
		out = append(out, v)
		for i > 0 && out[i-1] > v {
			out[i] = out[i-1]
			i--
		}
		out[i] = v
	}
	return out
}

// VerifSubscribe2Bytes: one SUBSCRIBE carrying two filters (the first may be one the broker refuses)
func VerifSubscribe2Bytes(id uint16, f1, f2 string, qos byte, ver byte) []byte {
	b := vU16b(id)
	if ver == 5 {
		b = append(b, 0)
	}
	b = append(b, vStrb(f1)...)
	b = append(b, qos)
	b = append(b, vStrb(f2)...)
	b = append(b, qos)
	return append([]byte{packets.Subscribe<<4 | 2, byte(len(b))}, b...)
}
