package mqtt

// Reference oracles written from the property statements (MQTT 4.7), not from the code under test.

// refLevels splits s at '/' (an empty string has one empty level).
func refLevels(s string) []string {
	var out []string
	start := 0
	for i := 0; i <= len(s); i++ {
		if i == len(s) || s[i] == '/' {
			out = append(out, s[start:i])
			start = i + 1
		}
	}
	return out
}

func refHas(s string, c byte) bool {
	for i := 0; i < len(s); i++ {
		if s[i] == c {
			return true
		}
	}
	return false
}

// refValidPlain: non-empty, '#' only as the whole last level, '+' only as a whole level.
func refValidPlain(f string) bool {
	if len(f) == 0 {
		return false
	}
	lv := refLevels(f)
	for i, l := range lv {
		if refHas(l, '#') && (len(l) != 1 || i != len(lv)-1) {
			return false
		}
		if refHas(l, '+') && len(l) != 1 {
			return false
		}
	}
	return true
}

// refValidFilter: C30's statement for subscription filters.
func refValidFilter(f string) bool {
	if !refValidPlain(f) {
		return false
	}
	lv := refLevels(f)
	if lv[0] == "$share" {
		if len(lv) < 3 {
			return false // needs a share name and a filter
		}
		if len(lv[1]) == 0 || refHas(lv[1], '+') || refHas(lv[1], '#') {
			return false
		}
		rest := f[len("$share/")+len(lv[1])+1:]
		if len(rest) == 0 {
			return false
		}
	}
	return true
}

// refValidTopic: C30's statement for client publish topics.
func refValidTopic(t string) bool {
	if refHas(t, '+') || refHas(t, '#') {
		return false
	}
	if len(t) >= 4 && t[0:4] == "$SYS" {
		return false
	}
	return true
}

// refMatchLevels: MQTT topic matching, level by level.
func refMatchLevels(fl, tl []string) bool {
	for i, f := range fl {
		if f == "#" {
			return true // parent level (i == len(tl)) and any number of child levels
		}
		if i >= len(tl) {
			return false
		}
		if f != "+" && f != tl[i] {
			return false
		}
	}
	return len(fl) == len(tl)
}

// refMatch: does the (already valid, non-shared) filter match the topic name?
func refMatch(filter, topic string) bool {
	if len(filter) > 0 && len(topic) > 0 && topic[0] == '$' && (filter[0] == '+' || filter[0] == '#') {
		return false // [MQTT-4.7.2-1]
	}
	return refMatchLevels(refLevels(filter), refLevels(topic))
}

// refShareInner returns the filter following "$share/<group>/" and the group.
func refShareInner(f string) (group, inner string, shared bool) {
	lv := refLevels(f)
	if len(lv) >= 3 && lv[0] == "$share" {
		return lv[1], f[len("$share/")+len(lv[1])+1:], true
	}
	return "", f, false
}
