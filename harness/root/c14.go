package mqtt

import (
	"net"

	"github.com/mochi-mqtt/server/v2/packets"
)

// C14: Session Present is 1 exactly when a session existed and Clean Start is 0; a resumed session keeps
// its subscriptions and unacknowledged messages; with Clean Start 1 nothing survives; when a second
// connection uses a live client id the first one gets nothing after its DISCONNECT and is closed.
// Driven end to end through the real connection handler (attachClient) on live scripted connections.
func VerifC14Takeover() {
	s, h := vNewServer(nil)
	oldVer := vByteIn("\x04\x05")
	newVer := vByteIn("\x04\x05")
	oldClean := vBool()
	newClean := vBool()
	existed := vBool()
	oldLive := vBool() // is the first connection still up when the second arrives?
	ov, nv := byte(vConcrete(int(oldVer), 4, 5)), byte(vConcrete(int(newVer), 4, 5))
	var c1 net.Conn
	if existed {
		c1 = vDial(s, vConnOpts{ver: ov, id: "c1", clean: oldClean, keepalive: 60, seiSet: ov == 5 && !oldClean, sei: 1000, rm: 5})
		vSend(c1, vSubscribeBytes(1, "t", 1, ov))
		// a message is delivered and stays unacknowledged
		s.publishToSubscribers(packets.Packet{FixedHeader: packets.FixedHeader{Type: packets.Publish, Qos: 1}, TopicName: "t", Payload: []byte{1}, Origin: "pub"})
		vDrain()
		vAssert("first-connection-got-the-message", vCountPublishes(c1, ov, "t") == 1)
		if !oldLive {
			vHangup(c1)
		}
	}
	before := 0
	if existed {
		before = len(vConnWritten(c1))
	}
	c2 := vDial(s, vConnOpts{ver: nv, id: "c1", clean: newClean, keepalive: 60, seiSet: nv == 5 && !newClean, sei: 1000, rm: 5})
	w2 := vParseWire(vConnWritten(c2), nv)
	vAssert("second-connection-got-connack-first", len(w2.Pkts) >= 1 && w2.Pkts[0].Type == packets.Connack && w2.Pkts[0].Reason == 0)
	// a session "existed" if the first connection left one behind: still connected, or disconnected with a persistent session
	sessionExisted := existed && (oldLive || !oldClean)
	// an MQTT 3 clean session is not a stored session
	if len(w2.Pkts) >= 1 {
		present := w2.Pkts[0].Session
		vAssert("session-present-only-if-a-session-existed-and-clean-start-0", !present || (sessionExisted && !newClean))
		if sessionExisted && !newClean && !(oldClean && ov < 5) {
			vAssert("session-present-when-resuming", present)
		}
		if sessionExisted && newClean {
			// the discarded session's unacknowledged message is released: reported to the hooks (that is how a
			// store learns to forget it, so that nothing is "restored later") and no longer counted
			vAssert("discarded-session-releases-its-unacknowledged-messages", h.qosDropped == 1 && s.Info.Inflight == 0)
		}
		if present {
			vAssert("resumed-session-redelivers-the-unacknowledged-message", vCountPublishes(c2, nv, "t") == 1)
		} else {
			vAssert("nothing-delivered-without-session-present", vCountPublishes(c2, nv, "t") == 0)
		}
		// a later publish
		s.publishToSubscribers(packets.Packet{FixedHeader: packets.FixedHeader{Type: packets.Publish, Qos: 0}, TopicName: "t", Payload: []byte{2}, Origin: "pub"})
		vDrain()
		w2b := vParseWire(vConnWritten(c2), nv)
		later := 0
		for _, p := range w2b.Pkts {
			if p.Type == packets.Publish && len(p.Payload) == 1 && p.Payload[0] == 2 {
				later++
			}
		}
		if present {
			vAssert("resumed-session-keeps-its-subscription", later == 1)
		} else {
			vAssert("clean-start-leaves-no-subscription-behind", later == 0)
		}
	}
	if existed && oldLive {
		// the first connection: closed, and at most a DISCONNECT after the takeover
		vAssert("taken-over-connection-is-closed", vConnClosed(c1))
		tail := vConnWritten(c1)[before:]
		wt := vParseWire(tail, ov)
		vAssert("taken-over-connection-tail-parses", wt.Trailing == 0)
		if ov == 5 {
			vAssert("v5-takeover-sends-one-disconnect-0x8e", len(wt.Pkts) == 1 && wt.Pkts[0].Type == packets.Disconnect && wt.Pkts[0].Reason == 0x8E)
		} else {
			// whether an MQTT 3 client may be sent a DISCONNECT at all is C23's subject, not C14's
			vAssert("v3-takeover-sends-at-most-a-disconnect", len(wt.Pkts) == 0 || (len(wt.Pkts) == 1 && wt.Pkts[0].Type == packets.Disconnect))
		}
	}
	// a further connection with Clean Start 1: nothing of the (possibly resumed) session may survive
	if vParam("THIRD", 1) == 1 && len(w2.Pkts) >= 1 {
		c3 := vDial(s, vConnOpts{ver: nv, id: "c1", clean: true, keepalive: 60, rm: 5})
		w3 := vParseWire(vConnWritten(c3), nv)
		vAssert("third-connection-connack", len(w3.Pkts) >= 1 && w3.Pkts[0].Type == packets.Connack)
		if len(w3.Pkts) >= 1 {
			vAssert("clean-start-1-never-reports-session-present", !w3.Pkts[0].Session)
		}
		s.publishToSubscribers(packets.Packet{FixedHeader: packets.FixedHeader{Type: packets.Publish, Qos: 0}, TopicName: "t", Payload: []byte{3}, Origin: "pub"})
		vDrain()
		vAssert("nothing-of-the-previous-session-survives-clean-start-1", vCountPublishes(c3, nv, "t") == 0)
		subs := s.Topics.Subscribers("t")
		_, ghost := subs.Subscriptions["c1"]
		vAssert("no-subscription-left-in-the-index-after-clean-start-1", !ghost)
	}
	if vParam("WF", 0) == 1 {
		vAssertWellFormed(vParseWire(vConnWritten(c2), nv), nv, 0)
		if existed {
			vAssertWellFormed(vParseWire(vConnWritten(c1), ov), ov, 0)
		}
	}
	vReach("end")
}
