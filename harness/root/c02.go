package mqtt

import "github.com/mochi-mqtt/server/v2/packets"

// C02: Messages(filter) returns exactly the current retained messages whose topic the filter matches,
// each exactly once, after a history of retain/clear operations.
func vRetainPk(topic string, nonEmpty bool) packets.Packet {
	pk := packets.Packet{FixedHeader: packets.FixedHeader{Type: packets.Publish, Retain: true}, TopicName: topic}
	if nonEmpty {
		pk.Payload = []byte{'x'}
	}
	return pk
}

func VerifC02Messages() {
	x := NewTopicsIndex()
	T := vParam("T", 3)
	t1 := vC01Topic(T)
	t2 := vC01Topic(T)
	p1, p2 := vBool(), vBool()
	x.RetainMessage(vRetainPk(t1, p1))
	x.RetainMessage(vRetainPk(t2, p2))
	third := vParam("H", 2) >= 3
	t3, p3 := t1, p1
	if third {
		// third operation re-targets one of the two topics (clear or overwrite)
		if vChoose(2) == 1 {
			t3 = t2
		}
		p3 = vBool()
		x.RetainMessage(vRetainPk(t3, p3))
	}
	// model: last operation per topic decides
	has1, has2 := p1, p2
	if t1 == t2 {
		has1 = p2
	}
	if third {
		if t3 == t1 {
			has1 = p3
		}
		if t3 == t2 {
			has2 = p3
		}
	}
	if vParam("SUBS", 0) == 1 {
		// a client subscribes to and then unsubscribes from one of the topics (or a level below it):
		// pruning of empty index nodes must not drop a retained message
		st := t1
		if vBool() {
			st = t2
		}
		if vBool() {
			st = st + "/z"
		}
		x.Subscribe("c9", packets.Subscription{Filter: st})
		x.Unsubscribe(st, "c9")
	}
	f := vC01Filter(1 + vLen(vParam("F", 3)-1))
	got := x.Messages(f)
	n1, n2, other := 0, 0, 0
	for _, pk := range got {
		switch {
		case pk.TopicName == t1:
			n1++
		case pk.TopicName == t2:
			n2++
		default:
			other++
		}
	}
	w1, w2 := 0, 0
	if has1 && refMatch(f, t1) {
		w1 = 1
	}
	if t1 != t2 && has2 && refMatch(f, t2) {
		w2 = 1
	}
	vObserve("n1", uint64(n1))
	vAssert("no-unrelated-topic", other == 0)
	vAssert("t1-at-most-once-and-only-if-matching", n1 <= w1)
	vAssert("t1-returned-if-matching", n1 >= w1)
	vAssert("t2-at-most-once-and-only-if-matching", n2 <= w2)
	vAssert("t2-returned-if-matching", n2 >= w2)
	vReach("end")
}
