package mqtt

import "github.com/mochi-mqtt/server/v2/packets"

// C08: an inbound QoS 2 message is forwarded exactly once however often the PUBLISH is retransmitted
// before PUBREL, and every (re)transmission is answered by a PUBREC that does not signal failure.
func VerifC08Once() {
	ver := byte(vParam("VER", 5))
	s, _ := vNewServer(nil)
	pub, pc := vNewClient(s, "pub", ver)
	sub, sc := vNewClient(s, "sub", 5)
	ss := packets.Subscription{Filter: "t", Qos: 0}
	s.Topics.Subscribe("sub", ss)
	sub.State.Subscriptions.Add("t", ss)
	if vParam("OWN", 0) == 1 {
		// the publisher is subscribed to its own topic at QoS 1: the broker allocates outbound packet ids for this
		// very client while the client's inbound exchange is open (the two id spaces must not disturb each other)
		ps := packets.Subscription{Filter: "t", Qos: 1}
		s.Topics.Subscribe("pub", ps)
		pub.State.Subscriptions.Add("t", ps)
	}
	id := vU16()
	vAssume(id != 0)
	n := 1 + vLen(vParam("RETX", 2)) // transmissions of the same PUBLISH before PUBREL
	for i := 0; i < n; i++ {
		pk := packets.Packet{ProtocolVersion: ver, FixedHeader: packets.FixedHeader{Type: packets.Publish, Qos: 2, Dup: i > 0}, PacketID: id, TopicName: "t", Payload: []byte{7}}
		_ = s.processPacket(pub, pk)
		vAssert("connection-stays-open-on-retransmission", !pub.Closed())
	}
	_ = s.processPacket(pub, packets.Packet{ProtocolVersion: ver, FixedHeader: packets.FixedHeader{Type: packets.Pubrel, Qos: 1}, PacketID: id})
	vFlush(pub)
	vFlush(sub)
	// what the subscriber got
	ws := vParseWire(vConnWritten(sc), 5)
	got := 0
	for _, p := range ws.Pkts {
		if p.Type == packets.Publish && p.Topic == "t" {
			got++
		}
	}
	vAssert("forwarded-at-least-once", got >= 1)
	vAssert("forwarded-at-most-once", got <= 1)
	// what the publisher got: one PUBREC per transmission, none signalling failure, then PUBCOMP
	wp := vParseWire(vConnWritten(pc), ver)
	recs, comps := 0, 0
	for _, p := range wp.Pkts {
		if p.Type == packets.Pubrec {
			recs++
			vAssert("pubrec-carries-id", p.ID == id)
			if recs > 1 {
				// recorded class: the answer to a RETRANSMISSION carries 0x91 (packet identifier in use)
				vAssert("kf-retransmission-answered-with-0x91", !(p.HasRsn && p.Reason == 0x91))
			}
			vAssert("pubrec-does-not-signal-failure", !p.HasRsn || p.Reason < 0x80)
		}
		if p.Type == packets.Pubcomp {
			comps++
		}
	}
	vAssert("one-pubrec-per-transmission", recs == n)
	vAssert("exchange-completed", comps == 1)
	vReach("end")
}

// retransmission after reconnecting with the existing session (PUBREC was sent, PUBREL not yet)
func VerifC08Reconnect() {
	ver := byte(vParam("VER", 5))
	s, _ := vNewServer(nil)
	pub, _, _ := vConnectClient(s, "pub", ver, false, 8)
	sub, sc := vNewClient(s, "sub", 5)
	ss := packets.Subscription{Filter: "t", Qos: 0}
	s.Topics.Subscribe("sub", ss)
	sub.State.Subscriptions.Add("t", ss)
	id := vU16()
	vAssume(id != 0)
	pk := packets.Packet{ProtocolVersion: ver, FixedHeader: packets.FixedHeader{Type: packets.Publish, Qos: 2}, PacketID: id, TopicName: "t", Payload: []byte{7}}
	_ = s.processPacket(pub, pk)
	vFlush(pub)
	// connection drops; the client resumes the session and, having seen no PUBCOMP, retransmits
	pub.Stop(nil)
	pub2, _, present := vConnectClient(s, "pub", ver, false, 8)
	vAssert("session-present", present)
	_ = pub2.ResendInflightMessages(true)
	n := vLen(vParam("RETX", 1))
	for i := 0; i < n; i++ {
		pk.FixedHeader.Dup = true
		_ = s.processPacket(pub2, pk)
	}
	_ = s.processPacket(pub2, packets.Packet{ProtocolVersion: ver, FixedHeader: packets.FixedHeader{Type: packets.Pubrel, Qos: 1}, PacketID: id})
	vFlush(pub2)
	vFlush(sub)
	ws := vParseWire(vConnWritten(sc), 5)
	got := 0
	for _, p := range ws.Pkts {
		if p.Type == packets.Publish && p.Topic == "t" {
			got++
		}
	}
	vAssert("forwarded-exactly-once-across-reconnect", got == 1)
	wp := vParseWire(vConnWritten(pub2.Net.Conn), ver)
	comps := 0
	for _, p := range wp.Pkts {
		if p.Type == packets.Pubcomp && p.ID == id {
			comps++
		}
	}
	vAssert("exchange-completed-after-reconnect", comps == 1)
	vReach("end")
}
