package mqtt

import "github.com/mochi-mqtt/server/v2/packets"

// C38: at every quiescent point the reported numbers of connected clients, client subscriptions,
// retained messages and in-flight messages equal the actual counts, and no counter is negative.
// Histories through the real connection handler and request handlers; actual counts are recomputed
// from the real data structures.
func vActualSubs(s *Server) int {
	n := 0
	for _, cl := range s.Clients.GetAll() {
		n += cl.State.Subscriptions.Len()
	}
	return n
}

func vActualInflight(s *Server) int {
	n := 0
	for _, cl := range s.Clients.GetAll() {
		n += cl.State.Inflight.Len()
	}
	return n
}

func vAssertCounters(s *Server, connected int) {
	vAssert("clients-connected-matches", s.Info.ClientsConnected == int64(connected))
	vAssert("subscriptions-counter-not-negative", s.Info.Subscriptions >= 0)
	vAssert("inflight-counter-not-negative", s.Info.Inflight >= 0)
	vAssert("retained-counter-not-negative", s.Info.Retained >= 0)
	vAssert("subscriptions-counter-matches", s.Info.Subscriptions == int64(vActualSubs(s)))
	vAssert("retained-counter-matches", s.Info.Retained == int64(s.Topics.Retained.Len()))
	vAssert("inflight-counter-matches", s.Info.Inflight == int64(vActualInflight(s)))
}

func VerifC38Counters() {
	caps := NewDefaultServerCapabilities()
	caps.MaximumMessageExpiryInterval = 100
	caps.MaximumClientWritesPending = int32(vParam("QUEUE", 1))
	if vParam("LIMIT", 0) == 1 {
		caps.MaximumClients = 1 // further connection attempts are refused: a refusal must leave the counter alone
	}
	s, _ := vNewServer(&Options{Capabilities: caps})
	ver := byte(vConcrete(int(vByteIn("\x04\x05")), 4, 5))
	// receive maximum 1: the second unacknowledged QoS 1 message is held back by flow control
	c1 := vDial(s, vConnOpts{ver: ver, id: "c1", clean: vBool(), keepalive: 60, seiSet: ver == 5, sei: 50, rm: []uint16{5, 1}[vChoose(2)]})
	connected := 1
	vAssertCounters(s, connected)
	live := true
	now := vNow()
	pid := uint16(1)
	steps := vParam("STEPS", 3)
	for i := 0; i < steps; i++ {
		nk := 8
		if vParam("LIMIT", 0) == 1 {
			nk = 9
		}
		switch vChoose(nk) {
		case 8: // another client tries to connect while the limit is reached (or not, if c1 is away)
			c2 := vDial(s, vConnOpts{ver: ver, id: "c2", clean: true, keepalive: 60})
			w2 := vParseWire(vConnWritten(c2), ver)
			if len(w2.Pkts) >= 1 && w2.Pkts[0].Type == packets.Connack && w2.Pkts[0].Reason == 0 {
				vHangup(c2) // admitted (c1 was away): it leaves again at once
			}
		case 7: // a burst of two QoS 1 messages before the write loop runs: the second may find the queue full
			for k := 0; k < 2; k++ {
				s.publishToSubscribers(packets.Packet{FixedHeader: packets.FixedHeader{Type: packets.Publish, Qos: 1}, TopicName: "t", Payload: []byte{byte(k)}, Origin: "pub"})
			}
			vDrain()
		case 0: // subscribe (maybe again)
			if live {
				pid++
				vSend(c1, vSubscribeBytes(pid, []string{"t", "t/+"}[vChoose(2)], 1, ver))
			}
		case 1: // unsubscribe (maybe a filter never subscribed)
			if live {
				pid++
				f := []string{"t", "t/+", "zz"}[vChoose(3)]
				b := vU16b(pid)
				if ver == 5 {
					b = append(b, 0)
				}
				b = append(b, vStrb(f)...)
				vSend(c1, append([]byte{packets.Unsubscribe<<4 | 2, byte(len(b))}, b...))
			}
		case 2: // a QoS 1 message for the session (in-flight), or a retained one
			retain := vBool()
			s.publishToSubscribers(packets.Packet{FixedHeader: packets.FixedHeader{Type: packets.Publish, Qos: 1, Retain: retain}, TopicName: "t", Payload: []byte{1}, Origin: "pub"})
			vDrain()
		case 3: // a client publishes a retained message (set or clear)
			if live {
				pl := byte(1)
				if vBool() {
					b := vStrb("r") // empty payload: clears
					if ver == 5 {
						b = append(b, 0)
					}
					vSend(c1, append([]byte{packets.Publish<<4 | 1, byte(len(b))}, b...))
				} else {
					vSend(c1, vPublishBytes("r", pl, 0, 0, true, ver))
				}
			}
		case 4: // the client acknowledges the first in-flight message
			if live {
				vSend(c1, []byte{packets.Puback << 4, 2, 0, 1})
			}
		case 5: // connection lost / reconnect
			if live {
				vHangup(c1)
				live = false
				connected = 0
			} else {
				c1 = vDial(s, vConnOpts{ver: ver, id: "c1", clean: vBool(), keepalive: 60, seiSet: ver == 5, sei: 50, rm: 1})
				live = true
				connected = 1
			}
		case 6: // housekeeping
			dt := now + int64(vRange(0, 300))
			s.clearExpiredClients(dt)
			s.clearExpiredInflights(dt)
			s.clearExpiredRetainedMessages(dt)
		}
		vDrain()
		vAssertCounters(s, connected)
	}
	vReach("end")
}
