package mqtt

import "github.com/mochi-mqtt/server/v2/packets"

// C25: effective expiry = smaller non-zero of publisher interval and server maximum; once housekeeping
// has run at a time strictly later than publish time + effective interval, no unsent copy is delivered
// (retained store, flow-control queue); a delivered message carries an interval <= time remaining.
func vEffective(pubInterval uint32, serverMax int64) int64 {
	p := int64(pubInterval)
	if p == 0 {
		return serverMax
	}
	if serverMax == 0 || p < serverMax {
		return p
	}
	return serverMax
}

func VerifC25Minimum() {
	a, b := vI64(), vI64()
	vAssume(a >= 0 && a < 1<<40)
	vAssume(b >= 0 && b < 1<<40)
	m := minimum(a, b)
	if a == 0 {
		vAssert("min-zero-a", m == b)
	} else if b == 0 {
		vAssert("min-zero-b", m == a)
	} else if a < b {
		vAssert("min-a", m == a)
	} else {
		vAssert("min-b", m == b)
	}
	vReach("end")
}

func VerifC25Retained() {
	ver := byte(vParam("VER", 5))
	caps := NewDefaultServerCapabilities()
	caps.MaximumMessageExpiryInterval = int64(vRange(0, 1<<20))
	s, _ := vNewServer(&Options{Capabilities: caps})
	pub, _ := vNewClient(s, "pub", ver)
	var interval uint32
	if ver == 5 {
		interval = vU32()
		vAssume(interval < 1<<20)
	}
	pk := packets.Packet{ProtocolVersion: ver, FixedHeader: packets.FixedHeader{Type: packets.Publish, Retain: true}, TopicName: "r", Payload: []byte{1}}
	pk.Properties.MessageExpiryInterval = interval
	now := vNow()
	_ = s.processPacket(pub, pk)
	eff := vEffective(interval, caps.MaximumMessageExpiryInterval)
	vAssert("message-retained", s.Topics.Retained.Len() == 1)
	// housekeeping tick some time later
	dt := now + int64(vRange(0, 1<<21))
	s.clearExpiredRetainedMessages(dt)
	left := s.Topics.Retained.Len()
	if eff > 0 && dt > now+eff {
		vAssert("expired-retained-message-removed", left == 0)
		// and a new subscriber gets nothing
		cl, c := vNewClient(s, "c1", 5)
		_ = s.processPacket(cl, packets.Packet{ProtocolVersion: 5, FixedHeader: packets.FixedHeader{Type: packets.Subscribe, Qos: 1}, PacketID: 3, Filters: packets.Subscriptions{{Filter: "r"}}})
		vFlush(cl)
		w := vParseWire(vConnWritten(c), 5)
		for _, p := range w.Pkts {
			vAssert("expired-retained-message-not-delivered", p.Type != packets.Publish)
		}
		vReach("expired")
	} else {
		vReach("alive")
	}
}

// a delivered message carries an interval no larger than the time remaining
func VerifC25Delivered() {
	caps := NewDefaultServerCapabilities()
	caps.MaximumMessageExpiryInterval = int64(vRange(0, 1<<20))
	s, _ := vNewServer(&Options{Capabilities: caps})
	pub, _ := vNewClient(s, "pub", 5)
	cl, c := vNewClient(s, "c1", 5)
	sub := packets.Subscription{Filter: "t", Qos: 0}
	s.Topics.Subscribe("c1", sub)
	cl.State.Subscriptions.Add("t", sub)
	interval := vU32()
	vAssume(interval < 1<<20)
	pk := packets.Packet{ProtocolVersion: 5, FixedHeader: packets.FixedHeader{Type: packets.Publish}, TopicName: "t", Payload: []byte{1}}
	pk.Properties.MessageExpiryInterval = interval
	_ = s.processPacket(pub, pk)
	vFlush(cl)
	w := vParseWire(vConnWritten(c), 5)
	vAssert("delivered", len(w.Pkts) == 1 && w.Pkts[0].Type == packets.Publish)
	eff := vEffective(interval, caps.MaximumMessageExpiryInterval)
	if len(w.Pkts) == 1 {
		p := w.Pkts[0]
		if eff > 0 {
			vAssert("delivered-interval-present-when-expiry-applies", p.HasExp)
			vAssert("delivered-interval-not-larger-than-remaining", int64(p.Expiry) <= eff && p.Expiry >= 1)
		} else {
			vAssert("no-interval-when-no-expiry-applies", !p.HasExp)
		}
	}
	vReach("end")
}

// a message held back by flow control is not delivered after its expiry
func VerifC25Deferred() {
	caps := NewDefaultServerCapabilities()
	caps.MaximumMessageExpiryInterval = int64(vRange(0, 1<<20))
	s, _ := vNewServer(&Options{Capabilities: caps})
	c := vConn()
	cl := s.NewClient(c, "t1", "c1", false)
	cl.ParseConnect("t1", packets.Packet{ProtocolVersion: 5, Connect: packets.ConnectParams{ClientIdentifier: "c1", Keepalive: 60}, Properties: packets.Properties{ReceiveMaximum: 1}})
	s.Clients.Add(cl)
	sub := packets.Subscription{Filter: "t", Qos: 1}
	s.Topics.Subscribe("c1", sub)
	cl.State.Subscriptions.Add("t", sub)
	pub, _ := vNewClient(s, "pub", 5)
	interval := vU32()
	vAssume(interval < 1<<20)
	now := vNow()
	for i := 0; i < 2; i++ { // the second one is held back (Receive Maximum 1)
		pk := packets.Packet{ProtocolVersion: 5, FixedHeader: packets.FixedHeader{Type: packets.Publish, Qos: 1}, PacketID: uint16(50 + i), TopicName: "t", Payload: []byte{byte(1 + i)}}
		pk.Properties.MessageExpiryInterval = interval
		_ = s.processPacket(pub, pk)
	}
	vFlush(cl)
	eff := vEffective(interval, caps.MaximumMessageExpiryInterval)
	dt := now + int64(vRange(0, 1<<21))
	s.clearExpiredInflights(dt)
	// the client acknowledges the first message; the broker may now release the second
	_ = s.processPacket(cl, packets.Packet{ProtocolVersion: 5, FixedHeader: packets.FixedHeader{Type: packets.Puback}, PacketID: 1})
	vFlush(cl)
	w := vParseWire(vConnWritten(c), 5)
	second := 0
	for _, p := range w.Pkts {
		if p.Type == packets.Publish && len(p.Payload) == 1 && p.Payload[0] == 2 {
			second++
		}
	}
	if eff > 0 && dt > now+eff {
		vAssert("expired-deferred-message-not-delivered", second == 0)
		vReach("expired")
	} else {
		vAssert("unexpired-deferred-message-is-released-after-the-acknowledgement", second == 1)
		vReach("alive")
	}
}

// VerifC25Offline: a QoS 1 message with a publisher-chosen expiry interval is queued for a persistent subscriber
// that is offline (MQTT 3 or 5); once housekeeping has run later than publish time + effective interval the
// message is gone and nothing is delivered when the subscriber comes back; before that it is delivered.
func VerifC25Offline() {
	caps := NewDefaultServerCapabilities()
	caps.MaximumMessageExpiryInterval = int64(vRange(0, 100))
	s, _ := vNewServer(&Options{Capabilities: caps})
	sv := byte(vConcrete(int(vByteIn("\x04\x05")), 4, 5))
	sub := vDial(s, vConnOpts{ver: sv, id: "sub", clean: false, keepalive: 60, seiSet: sv == 5, sei: 100000, rm: 5})
	vSend(sub, vSubscribeBytes(1, "t", 1, sv))
	vHangup(sub)
	interval := uint32(vRange(1, 50))
	now := vNow()
	pub := vDial(s, vConnOpts{ver: 5, id: "pub", clean: true, keepalive: 60})
	// PUBLISH v5 QoS 1 with Message Expiry Interval
	b := append(vStrb("t"), 0, 9)
	b = append(b, 5, 0x02)
	b = append(b, vU32b(interval)...)
	b = append(b, 7)
	vSend(pub, append([]byte{packets.Publish<<4 | 2, byte(len(b))}, b...))
	eff := vEffective(interval, caps.MaximumMessageExpiryInterval)
	dt := int64(vRange(0, 200))
	s.clearExpiredInflights(now + dt)
	vDrain()
	sub2 := vDial(s, vConnOpts{ver: sv, id: "sub", clean: false, keepalive: 60, seiSet: sv == 5, sei: 100000, rm: 5})
	n := vCountPublishes(sub2, sv, "t")
	// (one second of slack: natively the publish may fall into the second after the one read as "now")
	if eff > 0 && dt > eff+1 {
		vAssert("expired-queued-message-is-not-delivered-on-reconnect", n == 0)
	} else if eff == 0 || dt <= eff {
		vAssert("unexpired-queued-message-is-delivered-on-reconnect", n == 1)
	}
	vReach("end")
}
