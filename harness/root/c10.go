package mqtt

import "github.com/mochi-mqtt/server/v2/packets"

// C10(a): NextPacketID, one inductive step from an arbitrary in-flight state.
// maximumPacketID is set to M (3 quick / 7 thorough) so the wrap-around loop is fully unrolled;
// the real limit 65535 differs only in that constant (stated as outside the bound).
func VerifC10Alloc() {
	M := vParam("M", 3)
	s, _ := vNewServer(nil)
	s.Options.Capabilities.maximumPacketID = uint32(M)
	cl, _ := vNewClient(s, "c1", 5)
	// arbitrary pre-state: which of the ids 1..M are in use, and where the cursor stands
	used := make([]bool, M+1)
	nUsed := 0
	for i := 1; i <= M; i++ {
		if vBool() {
			used[i] = true
			nUsed++
			cl.State.Inflight.Set(packets.Packet{FixedHeader: packets.FixedHeader{Type: packets.Publish, Qos: 1}, PacketID: uint16(i)})
		}
	}
	cur := vChoose(M + 1)
	cl.State.packetID = uint32(cur)
	id, err := cl.NextPacketID()
	if err != nil {
		vAssert("exhausted-only-when-all-taken", nUsed == M)
		vReach("exhausted")
		return
	}
	vAssert("id-in-range", id >= 1 && int(id) <= M)
	vAssert("id-not-in-use", !used[vConcrete(int(id), 0, M)])
	vAssert("error-when-all-taken", nUsed < M)
	vReach("allocated")
}

// C10(b): a packet the client sends with its own id never completes, replaces or deletes the
// broker's outbound record with the same number (unless it is the acknowledgement of that record).
func VerifC10Cross() {
	s, _ := vNewServer(nil)
	cl, _ := vNewClient(s, "c1", byte(vParam("VER", 5)))
	// one outbound message delivered by the broker: QoS 1 or 2, gets id p
	sub := packets.Subscription{Filter: "a", Qos: 2}
	s.Topics.Subscribe("c1", sub)
	cl.State.Subscriptions.Add("a", sub)
	q := vByteIn("\x01\x02")
	s.publishToSubscribers(packets.Packet{FixedHeader: packets.FixedHeader{Type: packets.Publish, Qos: q}, TopicName: "a", Payload: []byte{1}, Origin: "other"})
	p := uint16(1)
	before, had := cl.State.Inflight.Get(p)
	vAssert("outbound-record-created", had && before.FixedHeader.Type == packets.Publish)
	vReach("outbound-record-created")
	// the client now sends a packet of its own, with a symbolic id
	t := vByteIn("\x03\x06\x08\x0a") // PUBLISH, PUBREL, SUBSCRIBE, UNSUBSCRIBE
	id := vU16()
	vAssume(id != 0)
	pk := packets.Packet{ProtocolVersion: cl.Properties.ProtocolVersion, FixedHeader: packets.FixedHeader{Type: t, Qos: 1}, PacketID: id, TopicName: "b", Payload: []byte{2}}
	switch vConcrete(int(t), 3, 10) {
	case 3:
		pk.FixedHeader.Qos = vByteIn("\x01\x02")
	case 8:
		pk.Filters = packets.Subscriptions{{Filter: "x"}}
	case 10:
		pk.Filters = packets.Subscriptions{{Filter: "x"}}
	}
	_ = s.processPacket(cl, pk)
	after, still := cl.State.Inflight.Get(p)
	intact := still && after.FixedHeader.Type == packets.Publish && after.TopicName == "a"
	// one label per client packet type, so that a recorded finding names the exact failing class
	switch vConcrete(int(t), 3, 10) {
	case 3:
		vAssert("outbound-message-survives-client-PUBLISH-with-same-id", intact)
	case 6:
		vAssert("outbound-message-survives-client-PUBREL-with-same-id", intact)
	case 8:
		vAssert("outbound-message-survives-client-SUBSCRIBE-with-same-id", intact)
	case 10:
		vAssert("outbound-message-survives-client-UNSUBSCRIBE-with-same-id", intact)
	}
	vReach("end")
}

// the reverse: acknowledgement-type packets for an id the broker never used towards the client, while
// the client has an inbound QoS 2 exchange open under the same id, do not complete that exchange.
func VerifC10Reverse() {
	s, _ := vNewServer(nil)
	cl, _ := vNewClient(s, "c1", 5)
	r := vU16()
	vAssume(r != 0)
	_ = s.processPacket(cl, packets.Packet{ProtocolVersion: 5, FixedHeader: packets.FixedHeader{Type: packets.Publish, Qos: 2}, PacketID: r, TopicName: "b", Payload: []byte{2}})
	rec, had := cl.State.Inflight.Get(r)
	vAssert("inbound-exchange-open", had && rec.FixedHeader.Type == packets.Pubrec)
	vReach("inbound-exchange-open")
	t := vByteIn("\x04\x05\x07") // PUBACK, PUBREC, PUBCOMP: acknowledgements of *outbound* messages
	_ = s.processPacket(cl, packets.Packet{ProtocolVersion: 5, FixedHeader: packets.FixedHeader{Type: t}, PacketID: r})
	rec2, still := cl.State.Inflight.Get(r)
	open := still && rec2.FixedHeader.Type == packets.Pubrec
	switch vConcrete(int(t), 4, 7) {
	case 4:
		vAssert("inbound-exchange-survives-PUBACK-with-same-id", open)
	case 5:
		vAssert("inbound-exchange-survives-PUBREC-with-same-id", open)
	case 7:
		vAssert("inbound-exchange-survives-PUBCOMP-with-same-id", open)
	}
	vReach("end")
}

// the broker's own id allocation never lands on an id under which the client has an inbound QoS 2
// exchange open (with one shared table that would replace the client's record)
func VerifC10AllocVsInbound() {
	M := vParam("M", 3)
	s, _ := vNewServer(nil)
	s.Options.Capabilities.maximumPacketID = uint32(M)
	cl, _ := vNewClient(s, "c1", 5)
	sub := packets.Subscription{Filter: "a", Qos: 1}
	s.Topics.Subscribe("c1", sub)
	cl.State.Subscriptions.Add("a", sub)
	r := uint16(1 + vChoose(M))
	_ = s.processPacket(cl, packets.Packet{ProtocolVersion: 5, FixedHeader: packets.FixedHeader{Type: packets.Publish, Qos: 2}, PacketID: r, TopicName: "b", Payload: []byte{2}})
	rec, had := cl.State.Inflight.Get(r)
	vAssert("inbound-exchange-open", had && rec.FixedHeader.Type == packets.Pubrec)
	cl.State.packetID = uint32(vChoose(M + 1))
	s.publishToSubscribers(packets.Packet{FixedHeader: packets.FixedHeader{Type: packets.Publish, Qos: 1}, TopicName: "a", Payload: []byte{1}, Origin: "other"})
	rec2, still := cl.State.Inflight.Get(r)
	vAssert("outbound-allocation-leaves-inbound-exchange-intact", still && rec2.FixedHeader.Type == packets.Pubrec)
	n := 0
	for _, tk := range cl.State.Inflight.GetAll(false) {
		if tk.FixedHeader.Type == packets.Publish {
			n++
			vAssert("outbound-message-uses-a-different-id", tk.PacketID != r)
		}
	}
	vAssert("outbound-message-recorded", n == 1)
	vReach("end")
}

// C10(c): a message that cannot be queued for a subscriber (its outbound queue is full) is rolled back
// without touching the subscriber's other exchanges: every id the subscriber has not acknowledged keeps its
// record, whatever packet id the PUBLISHER used for its own publish (symbolic), and ids handed out afterwards
// are distinct from the unacknowledged ones.
func VerifC10Drop() {
	caps := NewDefaultServerCapabilities()
	caps.MaximumClientWritesPending = 1
	s, h := vNewServer(&Options{Capabilities: caps})
	cl, c := vNewClient(s, "c1", 5)
	sub := packets.Subscription{Filter: "a", Qos: 1}
	s.Topics.Subscribe("c1", sub)
	cl.State.Subscriptions.Add("a", sub)
	// two messages delivered and unacknowledged: ids 1 and 2
	for i := 0; i < 2; i++ {
		s.publishToSubscribers(packets.Packet{FixedHeader: packets.FixedHeader{Type: packets.Publish, Qos: 1}, TopicName: "a", Payload: []byte{byte(i)}, Origin: "o"})
		vFlush(cl)
	}
	// the queue fills up (nobody drains it), then a publish whose own packet id is arbitrary is routed to c1
	s.publishToSubscribers(packets.Packet{FixedHeader: packets.FixedHeader{Type: packets.Publish, Qos: 1}, TopicName: "a", Payload: []byte{7}, Origin: "o"})
	pid := vU16()
	droppedBefore := h.dropped
	s.publishToSubscribers(packets.Packet{FixedHeader: packets.FixedHeader{Type: packets.Publish, Qos: 1}, PacketID: pid, TopicName: "a", Payload: []byte{8}, Origin: "o"})
	vAssert("message-for-a-full-queue-is-dropped", h.dropped == droppedBefore+1)
	for _, id := range []uint16{1, 2, 3} {
		_, ok := cl.State.Inflight.Get(id)
		vAssert("unacknowledged-message-keeps-its-record-when-another-is-dropped", ok)
	}
	vFlush(cl)
	// later deliveries get fresh ids
	s.publishToSubscribers(packets.Packet{FixedHeader: packets.FixedHeader{Type: packets.Publish, Qos: 1}, TopicName: "a", Payload: []byte{9}, Origin: "o"})
	vFlush(cl)
	w := vParseWire(vConnWritten(c), 5)
	seen := map[uint16]int{}
	for _, p := range w.Pkts {
		if p.Type == packets.Publish && p.HasID {
			seen[p.ID]++
		}
	}
	for id, n := range seen {
		_ = id
		vAssert("no-packet-id-used-twice-while-unacknowledged", n == 1)
	}
	vReach("end")
}
