package mqtt

// C30: IsValidFilter agrees with the statement's validity predicate on every string over the alphabet.
func VerifC30Filter() {
	n := vLen(vParam("N", 5))
	s := vStrIn(n, "/+#$asrhe")
	got := IsValidFilter(s, false)
	want := refValidFilter(s)
	vObserveBool("got", got)
	vAssert("accepts-only-valid-filters", !got || want)
	vAssert("accepts-all-valid-filters", !want || got)
	vReach("end")
}

// share filters: concrete "$share/" prefix followed by a symbolic remainder
func VerifC30Share() {
	n := vLen(vParam("N", 4))
	s := "$share/" + vStrIn(n, "/+#ag")
	got := IsValidFilter(s, false)
	want := refValidFilter(s)
	vObserveBool("got", got)
	vAssert("accepts-only-valid-share-filters", !got || want)
	vAssert("accepts-all-valid-share-filters", !want || got)
	vReach("end")
}

func VerifC30Topic() {
	n := vLen(vParam("N", 5))
	s := vStrIn(n, "/+#$SYa")
	got := IsValidFilter(s, true)
	want := refValidTopic(s)
	vObserveBool("got", got)
	vAssert("accepts-only-valid-topics", !got || want)
	vAssert("accepts-all-valid-topics", !want || got)
	vReach("end")
}
