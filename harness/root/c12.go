package mqtt

import "github.com/mochi-mqtt/server/v2/packets"

// C12: messages from one publisher on one topic reach a non-shared subscriber in publish order (first
// transmissions), including messages held back by flow control and resent after reconnection.
func VerifC12Order() {
	R := 1 + vChoose(2)
	caps := NewDefaultServerCapabilities()
	s, _ := vNewServer(&Options{Capabilities: caps})
	c := vConn()
	cl := s.NewClient(c, "t1", "c1", false)
	cl.ParseConnect("t1", packets.Packet{ProtocolVersion: 5, Connect: packets.ConnectParams{ClientIdentifier: "c1", Keepalive: 60}, Properties: packets.Properties{ReceiveMaximum: uint16(R)}})
	s.Clients.Add(cl)
	if vParam("WRAP", 0) == 1 {
		// packet ids about to wrap around
		s.Options.Capabilities.maximumPacketID = 3
		cl.State.packetID = uint32(vChoose(4))
	}
	sub := packets.Subscription{Filter: "t", Qos: 1}
	s.Topics.Subscribe("c1", sub)
	cl.State.Subscriptions.Add("t", sub)
	n := vParam("MSGS", 3)
	for i := 0; i < n; i++ {
		s.publishToSubscribers(packets.Packet{FixedHeader: packets.FixedHeader{Type: packets.Publish, Qos: 1}, TopicName: "t", Payload: []byte{byte(1 + i)}, Origin: "pub"})
	}
	vFlush(cl)
	// the client acknowledges whatever it has received, oldest first, until everything was sent
	acked := map[uint16]bool{}
	for round := 0; round < n+1; round++ {
		w := vParseWire(vConnWritten(c), 5)
		progressed := false
		for _, p := range w.Pkts {
			if p.Type == packets.Publish && !acked[p.ID] {
				acked[p.ID] = true
				_ = s.processPacket(cl, packets.Packet{ProtocolVersion: 5, FixedHeader: packets.FixedHeader{Type: packets.Puback}, PacketID: p.ID})
				vFlush(cl)
				progressed = true
				break
			}
		}
		if !progressed {
			break
		}
	}
	w := vParseWire(vConnWritten(c), 5)
	var order []byte
	for _, p := range w.Pkts {
		if p.Type == packets.Publish && p.Flags&8 == 0 && len(p.Payload) == 1 {
			order = append(order, p.Payload[0])
		}
	}
	for i := 0; i+1 < len(order); i++ {
		vAssert("first-transmissions-in-publish-order", order[i] < order[i+1])
	}
	if n-R >= 2 {
		// recorded class (C09/C11): the record of a message released from the flow-control queue is deleted
		// when it is written, so its PUBACK restores no quota and the messages behind it are never sent
		vAssert("kf-messages-behind-a-released-deferred-message-starve", len(order) == n)
	}
	vAssert("every-message-eventually-sent", len(order) == n)
	vReach("end")
}

// resend after reconnection: unacknowledged messages are resent in their original order
func VerifC12Resend() {
	s, _ := vNewServer(nil)
	c := vConn()
	cl := s.NewClient(c, "t1", "c1", false)
	cl.ParseConnect("t1", packets.Packet{ProtocolVersion: 5, Connect: packets.ConnectParams{ClientIdentifier: "c1", Keepalive: 60}, Properties: packets.Properties{ReceiveMaximum: 8}})
	s.Clients.Add(cl)
	wrap := false
	if vParam("WRAP", 0) == 1 {
		s.Options.Capabilities.maximumPacketID = 4
		cl.State.packetID = uint32(vChoose(5))
		wrap = int(cl.State.packetID)+vParam("MSGS", 3) > 4
	}
	sub := packets.Subscription{Filter: "t", Qos: 1}
	s.Topics.Subscribe("c1", sub)
	cl.State.Subscriptions.Add("t", sub)
	n := vParam("MSGS", 3)
	for i := 0; i < n; i++ {
		s.publishToSubscribers(packets.Packet{FixedHeader: packets.FixedHeader{Type: packets.Publish, Qos: 1}, TopicName: "t", Payload: []byte{byte(1 + i)}, Origin: "pub"})
	}
	vFlush(cl)
	// the connection drops before any acknowledgement; the client reconnects with the session
	cl.Stop(nil)
	c2 := vConn()
	cl2 := s.NewClient(c2, "t1", "c1", false)
	cpk := packets.Packet{ProtocolVersion: 5, Connect: packets.ConnectParams{ClientIdentifier: "c1", Keepalive: 60}, Properties: packets.Properties{ReceiveMaximum: 8}}
	cl2.ParseConnect("t1", cpk)
	present := s.inheritClientSession(cpk, cl2)
	s.Clients.Add(cl2)
	vAssert("session-present", present)
	_ = cl2.ResendInflightMessages(true)
	w := vParseWire(vConnWritten(c2), 5)
	var order []byte
	for _, p := range w.Pkts {
		if p.Type == packets.Publish && len(p.Payload) == 1 {
			order = append(order, p.Payload[0])
		}
	}
	vAssert("all-unacknowledged-resent", len(order) == n)
	for i := 0; i+1 < len(order); i++ {
		if wrap {
			// recorded class: within one second the order falls back to packet ids, which wrap around at the maximum
			vAssert("kf-resend-order-lost-when-packet-ids-wrap-within-one-second", order[i] < order[i+1])
		}
		vAssert("resent-in-original-order", order[i] < order[i+1])
	}
	vReach("end")
}

// messages still held back by flow control when the subscriber reconnects are not overtaken by a later
// publish from the same publisher
func VerifC12ReconnectHeld() {
	s, _ := vNewServer(nil)
	cl, _, _ := vConnectClient(s, "c1", 5, false, 1)
	sub := packets.Subscription{Filter: "t", Qos: 1}
	s.Topics.Subscribe("c1", sub)
	cl.State.Subscriptions.Add("t", sub)
	n := vParam("MSGS", 3)
	for i := 0; i < n; i++ {
		s.publishToSubscribers(packets.Packet{FixedHeader: packets.FixedHeader{Type: packets.Publish, Qos: 1}, TopicName: "t", Payload: []byte{byte(1 + i)}, Origin: "pub"})
	}
	vFlush(cl)
	cl.Stop(nil)
	R2 := uint16(1 + vChoose(3))
	cl2, _, present := vConnectClient(s, "c1", 5, false, R2)
	vAssert("session-present", present)
	_ = cl2.ResendInflightMessages(true)
	// a later message from the same publisher
	s.publishToSubscribers(packets.Packet{FixedHeader: packets.FixedHeader{Type: packets.Publish, Qos: 1}, TopicName: "t", Payload: []byte{byte(1 + n)}, Origin: "pub"})
	vFlush(cl2)
	// the client acknowledges what it receives, which lets anything still held back drain
	acked := map[uint16]bool{}
	for round := 0; round < n+2; round++ {
		wr := vParseWire(vConnWritten(cl2.Net.Conn), 5)
		progressed := false
		for _, p := range wr.Pkts {
			if p.Type == packets.Publish && !acked[p.ID] {
				acked[p.ID] = true
				_ = s.processPacket(cl2, packets.Packet{ProtocolVersion: 5, FixedHeader: packets.FixedHeader{Type: packets.Puback}, PacketID: p.ID})
				vFlush(cl2)
				progressed = true
				break
			}
		}
		if !progressed {
			break
		}
	}
	w := vParseWire(vConnWritten(cl2.Net.Conn), 5)
	var order []byte
	seenPay := map[byte]bool{}
	for _, p := range w.Pkts {
		if p.Type == packets.Publish && len(p.Payload) == 1 && !seenPay[p.Payload[0]] {
			seenPay[p.Payload[0]] = true // first appearance on the new connection only
			order = append(order, p.Payload[0])
		}
	}
	for i := 0; i+1 < len(order); i++ {
		vAssert("later-publish-does-not-overtake-held-messages", order[i] < order[i+1])
	}
	vReach("end")
}
