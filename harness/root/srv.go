package mqtt

import (
	"net"

	"github.com/mochi-mqtt/server/v2/packets"
)

// vHook: allow-all authentication; ACL verdicts default to allow and can be overridden per harness.
type vHook struct {
	HookBase
	aclDeny     func(cl *Client, topic string, write bool) bool
	dropped     int
	qosDropped  int
	idExhausted int
	sent        [][]byte
	sentTo      []*Client
	events      []string // order of connection life-cycle events, for schedule-dependent properties
}

func (h *vHook) ID() string { return "verif" }
func (h *vHook) Provides(b byte) bool {
	return b == OnACLCheck || b == OnConnectAuthenticate || b == OnPublishDropped || b == OnQosDropped || b == OnPacketIDExhausted || b == OnPacketSent || b == OnDisconnect || b == OnSessionEstablished
}
func (h *vHook) OnDisconnect(cl *Client, err error, expire bool)    { h.events = append(h.events, "disc:"+cl.ID) }
func (h *vHook) OnSessionEstablished(cl *Client, pk packets.Packet) { h.events = append(h.events, "est:"+cl.ID) }
func (h *vHook) OnConnectAuthenticate(cl *Client, pk packets.Packet) bool { return true }
func (h *vHook) OnACLCheck(cl *Client, topic string, write bool) bool {
	if h.aclDeny != nil && h.aclDeny(cl, topic, write) {
		return false
	}
	return true
}
func (h *vHook) OnPublishDropped(cl *Client, pk packets.Packet)    { h.dropped++ }
func (h *vHook) OnQosDropped(cl *Client, pk packets.Packet)        { h.qosDropped++ }
func (h *vHook) OnPacketIDExhausted(cl *Client, pk packets.Packet) { h.idExhausted++ }
func (h *vHook) OnPacketSent(cl *Client, pk packets.Packet, b []byte) {
	h.sent = append(h.sent, append([]byte{}, b...))
	h.sentTo = append(h.sentTo, cl)
	if pk.FixedHeader.Type == packets.Connack {
		h.events = append(h.events, "connack:"+cl.ID)
	}
}

func vNewServer(opts *Options) (*Server, *vHook) {
	if opts == nil {
		opts = &Options{}
	}
	s := New(opts)
	h := new(vHook)
	_ = s.AddHook(h, nil)
	return s, h
}

// vNewClient: a connected client of protocol version ver registered with the server (as attachClient
// leaves it after a successful CONNECT), on a scripted connection.
func vNewClient(s *Server, id string, ver byte) (*Client, net.Conn) {
	c := vConn()
	cl := s.NewClient(c, "t1", id, false)
	cl.Properties.ProtocolVersion = ver
	cl.State.Inflight.ResetReceiveQuota(int32(s.Options.Capabilities.ReceiveMaximum))
	cl.State.Inflight.ResetSendQuota(int32(s.Options.Capabilities.ReceiveMaximum))
	s.Clients.Add(cl)
	return cl, c
}

// vFlush performs the WriteLoop's work for everything queued so far: one WritePacket per queued packet.
func vFlush(cl *Client) {
	for len(cl.State.outbound) > 0 {
		pk := <-cl.State.outbound
		_ = cl.WritePacket(*pk)
		cl.State.outboundQty--
	}
}

func vQueued(cl *Client) int { return len(cl.State.outbound) }

func connOf(c interface{ Close() error }) net.Conn { return c.(net.Conn) }
