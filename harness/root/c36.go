package mqtt

import (
	"github.com/mochi-mqtt/server/v2/listeners"
)

// C36: shutdown closes every connection and waits for all handlers.
//
// The accept loop of a listener is modelled by what it does with an accepted connection: it starts a
// goroutine that calls the server's establish function (listeners/tcp.go: `go establish(l.id, conn)`). The
// listener registered here is the repository's own listeners.MockListener. Connection 1 is fully attached
// before the shutdown begins. Connection 2 is, by STAGE:
//   0  accepted and waiting for its CONNECT when Close is called; the CONNECT arrives during the shutdown
//   1  handed to its handler goroutine concurrently with Close (CONNECT already on the wire): every
//      interleaving of the handler and of Close at synchronisation operations within the pre-emption bound
//   2  absent
//   4  attached through a SECOND listener before Close (Close closes the listeners one after the other)
//   3  handed to its handler goroutine by the accept loop before Close, but the goroutine is first scheduled
//      after Close has returned (a goroutine that has not run yet has no effects, so it is started here after
//      Close): the extreme schedule of stage 1, which the bounded schedule search of stage 1 does not reach
// At quiescence (every goroutine finished or waiting for bytes that will not come) the obligations are checked.
func VerifC36Shutdown() {
	s, hk := vNewServer(nil)
	_ = s.AddListener(listeners.NewMockListener("t1", ":1"))
	if vParam("STAGE", 0) == 4 {
		_ = s.AddListener(listeners.NewMockListener("t2", ":2"))
	}
	ver1 := vByteIn("\x04\x05")
	ver2 := vByteIn("\x04\x05")
	stage := vParam("STAGE", 0)

	c1 := vConnLive()
	h1done, h2done, closeDone := false, false, false
	// what the handlers had done at the moment Close returned: anything they do later (hook events, bytes
	// written) shows a handler still alive after Close returned
	evAtClose, w1AtClose, w2AtClose := 0, 0, 0
	vConnFeed(c1, vConnectBytes(vConnOpts{ver: ver1, id: "a", clean: true}))
	go func() {
		_ = s.EstablishConnection("t1", c1)
		h1done = true
	}()
	vDrain()
	vAssume(len(vParseWire(vConnWritten(c1), ver1).Pkts) == 1) // CONNACK: attached

	c2 := vConnLive()
	connect2 := vConnectBytes(vConnOpts{ver: ver2, id: "b", clean: true})
	switch stage {
	case 0:
		go func() {
			_ = s.EstablishConnection("t1", c2)
			h2done = true
		}()
		vDrain()
	case 1:
		vConnFeed(c2, connect2)
		go func() {
			_ = s.EstablishConnection("t1", c2)
			h2done = true
		}()
	case 2:
		h2done = true
	case 4: // a second listener with its own attached client: closing one listener must not wait for the other's
		vConnFeed(c2, connect2)
		go func() {
			_ = s.EstablishConnection("t2", c2)
			h2done = true
		}()
		vDrain()
	}
	go func() {
		_ = s.Close()
		evAtClose, w1AtClose, w2AtClose = len(hk.events), len(vConnWritten(c1)), len(vConnWritten(c2))
		closeDone = true
	}()
	vDrain()
	if stage == 0 {
		vSend(c2, connect2) // the CONNECT of the waiting connection arrives while the server is shutting down
	}
	if stage == 3 {
		vAssume(closeDone)
		vConnFeed(c2, connect2)
		go func() {
			_ = s.EstablishConnection("t1", c2)
			h2done = true
		}()
	}
	vDrain()

	late := closeDone && (len(hk.events) != evAtClose || len(vConnWritten(c1)) != w1AtClose || len(vConnWritten(c2)) != w2AtClose)
	if late {
		vReach("handler-activity-after-close-returned")
	}
	// recorded classes first (see known_findings.json), then the general obligations
	if stage == 1 || stage == 3 {
		vAssert("kf-close-returns-before-a-handler-that-had-not-yet-registered-with-the-waitgroup", !(closeDone && (late || !h2done)))
	}
	vAssert("close-returns", closeDone)
	vAssert("no-handler-active-after-close-returned", !late)
	vAssert("every-handler-finished", h1done && h2done)
	vAssert("attached-connection-closed", vConnClosed(c1))
	if stage != 2 {
		vAssert("second-connection-closed", vConnClosed(c2))
	}
	w1 := vParseWire(vConnWritten(c1), ver1)
	if ver1 == 5 {
		last := w1.Pkts[len(w1.Pkts)-1]
		vAssert("mqtt5-client-receives-disconnect-0x8B", last.Type == 14 && last.HasRsn && last.Reason == 0x8B)
	}
	w2 := vParseWire(vConnWritten(c2), ver2)
	if len(w2.Pkts) > 0 {
		// C13: whatever the shutdown does to a connection that is being established, the first packet it gets is
		// its CONNACK
		if stage == 1 {
			// recorded class: the client is registered (Clients.Add) before its CONNACK is written; a Close that takes
			// its list in between disconnects it first, so a DISCONNECT precedes (or replaces) the CONNACK
			vAssert("kf-client-registered-before-its-connack-is-disconnected-first-by-close", w2.Pkts[0].Type != 14)
		}
		vAssert("first-packet-to-a-connection-is-its-connack", w2.Pkts[0].Type == 2)
	}
	if ver2 == 5 && len(w2.Pkts) > 0 && w2.Pkts[0].Type == 2 && w2.Pkts[0].Reason == 0 {
		// admitted (CONNACK success) during the shutdown: it is a connected client and must be told
		last := w2.Pkts[len(w2.Pkts)-1]
		vAssert("mqtt5-client-admitted-during-shutdown-receives-disconnect-0x8B", last.Type == 14 && last.HasRsn && last.Reason == 0x8B)
	}
	vReach("end")
}
