package mqtt

import (
	"bytes"

	"github.com/mochi-mqtt/server/v2/packets"
)

// vAuthHook: an authentication hook whose verdict is a solver variable; present only if the harness adds it.
type vAuthHook struct {
	HookBase
	allow bool
	asked int
}

func (h *vAuthHook) ID() string                                                   { return "verif-auth" }
func (h *vAuthHook) Provides(b byte) bool                                         { return b == OnConnectAuthenticate || b == OnACLCheck }
func (h *vAuthHook) OnConnectAuthenticate(cl *Client, pk packets.Packet) bool     { h.asked++; return h.allow }
func (h *vAuthHook) OnACLCheck(cl *Client, topic string, write bool) bool         { return true }

// C13: on every connection the first packet written is a CONNACK, written exactly once; a success CONNACK
// only if an authentication hook allowed the client (none installed => refused); a first packet that is
// not a valid CONNECT, or a CONNECT violating the protocol, never yields a session and the connection
// is closed after at most a failure CONNACK.
func VerifC13Attach() {
	s := New(nil)
	nhooks := vChoose(3) // 0: no hook at all, 1: one auth hook, 2: two auth hooks
	var hooks []*vAuthHook
	for i := 0; i < nhooks; i++ {
		h := &vAuthHook{allow: vBool()}
		_ = s.AddHook(h, nil)
		hooks = append(hooks, h)
	}
	// the first packet: a CONNECT with symbolic fields, or something else
	first := vChoose(3) // 0 CONNECT, 1 PINGREQ first, 2 garbage header
	var wire bytes.Buffer
	var cp packets.Packet
	switch first {
	case 0:
		ver := vByteIn("\x03\x04\x05\x06")
		cp = packets.Packet{ProtocolVersion: ver, FixedHeader: packets.FixedHeader{Type: packets.Connect}}
		switch vChoose(3) {
		case 0:
			cp.Connect.ProtocolName = []byte("MQTT")
		case 1:
			cp.Connect.ProtocolName = []byte("MQIsdp")
		default:
			cp.Connect.ProtocolName = []byte("MQXX")
		}
		cp.Connect.Clean = vBool()
		cp.Connect.Keepalive = 30
		if vBool() {
			cp.Connect.ClientIdentifier = "c1"
		}
		cp.ReservedBit = vByteIn("\x00\x01")
		if vBool() {
			cp.Connect.WillFlag = true
			cp.Connect.WillQos = vByteIn("\x00\x01\x02\x03")
			cp.Connect.WillTopic = "w"
			if vBool() {
				cp.Connect.WillPayload = []byte{1}
			}
		} else {
			cp.Connect.WillRetain = vBool()
		}
		if vBool() {
			cp.Connect.UsernameFlag = true
			cp.Connect.Username = []byte("u")
		}
		if vBool() {
			cp.Connect.PasswordFlag = true
			if vBool() {
				cp.Connect.Password = []byte("p")
			}
		}
		// hand-encode the flags byte so that the reserved bit and out-of-range will QoS reach the wire
		var body bytes.Buffer
		body.Write(rBinC(cp.Connect.ProtocolName))
		body.WriteByte(ver)
		flags := cp.ReservedBit
		if cp.Connect.Clean {
			flags |= 2
		}
		if cp.Connect.WillFlag {
			flags |= 4
		}
		flags |= cp.Connect.WillQos << 3
		if cp.Connect.WillRetain {
			flags |= 32
		}
		if cp.Connect.PasswordFlag {
			flags |= 64
		}
		if cp.Connect.UsernameFlag {
			flags |= 128
		}
		body.WriteByte(flags)
		body.Write([]byte{0, 30})
		if ver == 5 {
			body.WriteByte(0)
		}
		body.Write(rBinC([]byte(cp.Connect.ClientIdentifier)))
		if cp.Connect.WillFlag {
			if ver == 5 {
				body.WriteByte(0)
			}
			body.Write(rBinC([]byte(cp.Connect.WillTopic)))
			body.Write(rBinC(cp.Connect.WillPayload))
		}
		if cp.Connect.UsernameFlag {
			body.Write(rBinC(cp.Connect.Username))
		}
		if cp.Connect.PasswordFlag {
			body.Write(rBinC(cp.Connect.Password))
		}
		wire.WriteByte(packets.Connect << 4)
		wire.WriteByte(byte(body.Len()))
		wire.Write(body.Bytes())
	case 1:
		wire.Write([]byte{0xC0, 0x00})
	default:
		wire.Write([]byte{vByte(), vByteIn("\x00\x01\x02\x03")})
	}
	c := vConn()
	vConnFeed(c, wire.Bytes())
	_ = s.EstablishConnection("t1", c)
	vDrain()
	// reference validity of the CONNECT (MQTT 3.1.2 / 3.1.3)
	valid := first == 0
	if valid {
		name := string(cp.Connect.ProtocolName)
		ver := cp.ProtocolVersion
		valid = (name == "MQTT" && (ver == 4 || ver == 5)) || (name == "MQIsdp" && ver == 3)
		valid = valid && cp.ReservedBit == 0
		if cp.Connect.WillFlag {
			valid = valid && cp.Connect.WillQos <= 2 && len(cp.Connect.WillPayload) > 0
		} else {
			valid = valid && !cp.Connect.WillRetain && cp.Connect.WillQos == 0
		}
		valid = valid && (!cp.Connect.PasswordFlag || len(cp.Connect.Password) > 0)
		valid = valid && !(ver < 5 && !cp.Connect.Clean && cp.Connect.ClientIdentifier == "")
	}
	allowed := false
	for _, h := range hooks {
		if h.allow {
			allowed = true
		}
	}
	ver := byte(4)
	if first == 0 && cp.ProtocolVersion == 5 {
		ver = 5
	}
	w := vParseWire(vConnWritten(c), ver)
	vAssert("transcript-parses", w.Trailing == 0)
	nack := 0
	for i, p := range w.Pkts {
		if p.Type == packets.Connack {
			nack++
			vAssert("connack-is-the-first-packet", i == 0)
			if p.Reason == 0 {
				vAssert("success-connack-only-for-a-valid-connect", valid)
				vAssert("success-connack-only-if-an-auth-hook-allowed", allowed)
			}
		}
	}
	vAssert("at-most-one-connack", nack <= 1)
	if len(w.Pkts) > 0 {
		vAssert("first-packet-is-connack", w.Pkts[0].Type == packets.Connack)
	}
	if valid && allowed {
		vAssert("admitted-client-got-success-connack", nack == 1 && w.Pkts[0].Reason == 0)
	} else {
		vAssert("refused-connection-leaves-no-session", s.Clients.Len() == 0)
		vAssert("refused-connection-gets-at-most-a-failure-connack", len(w.Pkts) <= 1)
	}
	if vParam("WF", 0) == 1 {
		vAssertWellFormed(w, ver, 0)
	}
	vAssert("connection-closed-at-the-end", vConnClosed(c))
	vAssert("clients-connected-counter-back-to-zero", s.Info.ClientsConnected == 0)
	vReach("end")
}

func rBinC(b []byte) []byte { return append([]byte{byte(len(b) >> 8), byte(len(b))}, b...) }
