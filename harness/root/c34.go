package mqtt

import "github.com/mochi-mqtt/server/v2/packets"

// C34: whenever the broker is quiescent every packet it has reported as sent (OnPacketSent) has actually
// been written to the connection; nothing is stranded in the write buffer because a later write was
// refused; a message is dropped without being written only for a reported reason, and each such drop is
// reported to the hooks.
func VerifC34Flush() {
	caps := NewDefaultServerCapabilities()
	caps.MaximumClientWritesPending = int32(1 + vChoose(3))
	s, h := vNewServer(&Options{Capabilities: caps, ClientNetWriteBufferSize: 8 + 8*vChoose(3)})
	cl, c := vNewClient(s, "c1", 5)
	if vBool() {
		cl.Properties.Props.MaximumPacketSize = uint32(vRange(6, 20))
	}
	sub := packets.Subscription{Filter: "t", Qos: 0}
	s.Topics.Subscribe("c1", sub)
	cl.State.Subscriptions.Add("t", sub)
	entered, steps := 0, vParam("STEPS", 4)
	oversize := 0        // messages entered that exceed the client's Maximum Packet Size (a permitted omission)
	lastRefused := false // the most recent WritePacket was refused as too large for the client
	for i := 0; i < steps; i++ {
		switch vChoose(3) {
		case 0: // a message for the client enters publishToClient
			n := vLen(vParam("PAYLOAD", 12))
			// a v5 QoS 0 PUBLISH to topic "t" without alias: 2 header + 3 topic + 1 property length + 5 message
			// expiry interval (the server's default maximum is applied to every message) + payload
			if mps := cl.Properties.Props.MaximumPacketSize; mps > 0 && uint32(11+n) > mps {
				oversize++
			}
			s.publishToSubscribers(packets.Packet{FixedHeader: packets.FixedHeader{Type: packets.Publish}, TopicName: "t", Payload: make([]byte, n), Origin: "pub"})
			entered++
		case 1: // a direct write (e.g. an acknowledgement) while the queue is in whatever state it is
			lastRefused = cl.WritePacket(packets.Packet{FixedHeader: packets.FixedHeader{Type: packets.Pingresp}}) == packets.ErrPacketTooLarge
		case 2: // the write loop takes one queued packet
			if len(cl.State.outbound) > 0 {
				pk := <-cl.State.outbound
				lastRefused = cl.WritePacket(*pk) == packets.ErrPacketTooLarge
				cl.State.outboundQty--
			}
		}
	}
	for len(cl.State.outbound) > 0 { // the write loop catches up: the broker is quiescent now
		pk := <-cl.State.outbound
		lastRefused = cl.WritePacket(*pk) == packets.ErrPacketTooLarge
		cl.State.outboundQty--
	}
	// OnPacketSent is the broker's report that a packet was sent (its byte argument is empty on the direct
	// write path, so packets are counted, not bytes)
	nsent := 0
	for i := range h.sent {
		if h.sentTo[i] == cl {
			nsent++
		}
	}
	written := vConnWritten(c)
	wire := vParseWire(written, 5)
	vObserve("written", uint64(len(written)))
	vAssert("connection-carries-complete-packets-only", wire.Trailing == 0)
	if len(wire.Pkts) < nsent && lastRefused {
		// recorded class: bytes parked in the client's write buffer while the queue was non-empty stay there
		// when the last queued packet is refused (too large for the client), because the refusal returns
		// before the flush
		vAssert("kf-packets-reported-sent-stranded-in-write-buffer", false)
	}
	vAssert("everything-reported-sent-is-on-the-connection", len(wire.Pkts) == nsent)
	// drops: every message that entered is written, or its drop was reported
	pubs := 0
	for _, p := range wire.Pkts {
		if p.Type == packets.Publish {
			pubs++
		}
	}
	if oversize > 0 {
		// recorded class: a packet exceeding the client's maximum size is a permitted omission, but it is only logged
		vAssert("kf-oversize-drop-not-reported-to-hooks", pubs+h.dropped >= entered)
	}
	vAssert("every-unwritten-message-was-oversize-or-a-reported-drop", pubs+h.dropped+oversize >= entered)
	vReach("end")
}

// connection write errors: nothing is reported as sent that was not accepted by the connection
func VerifC34WriteError() {
	s, h := vNewServer(&Options{ClientNetWriteBufferSize: 8})
	cl, c := vNewClient(s, "c1", 5)
	vConnFailMode(c, 1)
	sub := packets.Subscription{Filter: "t", Qos: 0}
	s.Topics.Subscribe("c1", sub)
	cl.State.Subscriptions.Add("t", sub)
	for i := 0; i < vParam("MSGS", 3); i++ {
		s.publishToSubscribers(packets.Packet{FixedHeader: packets.FixedHeader{Type: packets.Publish}, TopicName: "t", Payload: []byte{byte(i)}, Origin: "pub"})
		if vBool() {
			vFlush(cl)
		}
	}
	vFlush(cl)
	if vConnFailed(c) == 0 {
		nsent := 0
		for i := range h.sent {
			if h.sentTo[i] == cl {
				nsent++
			}
		}
		vAssert("without-write-errors-everything-reported-is-written", len(vParseWire(vConnWritten(c), 5).Pkts) == nsent)
	}
	vReach("end")
}
