package mqtt

import "github.com/mochi-mqtt/server/v2/packets"

// C06: for every share group with at least one member subscription matching the topic exactly one
// member is chosen; nobody gets more than one copy. Go's map iteration order is where the
// nondeterminism lives: every order of every map with <= 3 entries is a decision of the engine.
func VerifC06Groups() {
	s, _ := vNewServer(nil)
	ids := []string{"c1", "c2", "c3"}
	var cls []*Client
	for _, id := range ids {
		cl, _ := vNewClient(s, id, 5)
		cls = append(cls, cl)
	}
	groups := []string{"g", "h"}
	filters := []string{"a/b", "a/+", "a/#"}
	n := 1 + vLen(vParam("N", 3)-1)
	firstFilter := ""
	member := map[string]map[string]bool{"g": {}, "h": {}} // group -> client -> has a matching member subscription
	gfilters := map[string]map[int]bool{"g": {}, "h": {}}  // group -> distinct inner filters used by its members
	for i := 0; i < n; i++ {
		ci, gi, fi := vChoose(3), vChoose(2), vChoose(3)
		f := "$share/" + groups[gi] + "/" + filters[fi]
		sub := packets.Subscription{Filter: f, Qos: 1}
		s.Topics.Subscribe(ids[ci], sub)
		cls[ci].State.Subscriptions.Add(f, sub)
		member[groups[gi]][ids[ci]] = true
		if i == 0 {
			firstFilter = f
		}
		gfilters[groups[gi]][fi] = true
	}
	if vBool() {
		// a client that is NOT a member unsubscribes from one of the group filters: must change nothing
		s.Topics.Unsubscribe(firstFilter, "stranger")
	}
	plain := vBool() // c1 additionally holds a non-shared subscription
	if plain {
		sub := packets.Subscription{Filter: "a/b", Qos: 1}
		s.Topics.Subscribe("c1", sub)
		cls[0].State.Subscriptions.Add("a/b", sub)
	}
	s.publishToSubscribers(packets.Packet{FixedHeader: packets.FixedHeader{Type: packets.Publish, Qos: 1}, TopicName: "a/b", Payload: []byte{1}, Origin: "other"})
	total := 0
	for i, cl := range cls {
		q := vQueued(cl)
		vAssert("no-client-gets-more-than-one-copy", q <= 1)
		if i == 0 && plain {
			vAssert("non-shared-subscriber-always-gets-it", q == 1)
		}
		if !member["g"][ids[i]] && !member["h"][ids[i]] && !(i == 0 && plain) {
			vAssert("non-member-gets-nothing", q == 0)
		}
		total += q
	}
	ng := 0
	for _, g := range groups {
		if len(member[g]) > 0 {
			ng++
			// at least one member of the group got (or queued) the message
			got := false
			for i, id := range ids {
				if member[g][id] && vQueued(cls[i]) == 1 {
					got = true
				}
			}
			vAssert("each-group-has-a-receiving-member", got)
		}
	}
	// exactly one member per group: the number of receiving clients that are only shared members cannot exceed the number of groups
	onlyShared := total
	if plain && vQueued(cls[0]) == 1 {
		onlyShared--
	}
	if len(gfilters["g"]) > 1 || len(gfilters["h"]) > 1 {
		// recorded class: members of ONE group that subscribed with DIFFERENT filters are selected per filter
		vAssert("kf-one-member-per-filter-not-per-group", onlyShared <= ng)
	}
	vAssert("at-most-one-chosen-member-per-group", onlyShared <= ng)
	vReach("end")
}
