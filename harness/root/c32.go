package mqtt

import "github.com/mochi-mqtt/server/v2/packets"

// C32 (lock half): no code path acquires a lock it already holds (a second RLock can deadlock behind a
// waiting writer). The engine's lock tracker records, per goroutine and path, every sync.(RW)Mutex
// acquisition with the set of locks held; a re-acquisition is reported as a violation of kind "lock".
// This sweep calls every method of the lock-carrying types, the histories of the other harnesses add
// their paths, and connection-level scenarios run with real goroutines.
func VerifC32Sweep() {
	s, _ := vNewServer(&Options{InlineClient: true})
	cl, _ := vNewClient(s, "c1", 5)
	cl2, _ := vNewClient(s, "c2", 4)
	// Clients
	_ = s.Clients.Len()
	_ = s.Clients.GetAll()
	_, _ = s.Clients.Get("c1")
	_ = s.Clients.GetByListener("t1")
	s.Clients.Delete("zz")
	// Inflight
	inf := cl.State.Inflight
	inf.Set(packets.Packet{PacketID: 1, Expiry: -1})
	inf.Set(packets.Packet{PacketID: 2})
	_, _ = inf.Get(1)
	_ = inf.Len()
	_ = inf.GetAll(false)
	_ = inf.GetAll(true)
	_, _ = inf.NextImmediate()
	_ = inf.Clone()
	inf.Delete(2)
	inf.DecreaseReceiveQuota()
	inf.IncreaseReceiveQuota()
	inf.DecreaseSendQuota()
	inf.IncreaseSendQuota()
	// topic aliases
	cl.State.TopicAliases.Inbound.Set(1, "a")
	cl.State.TopicAliases.Outbound.Set("a")
	// subscriptions containers
	sub := packets.Subscription{Filter: "a/b", Qos: 1}
	cl.State.Subscriptions.Add("a/b", sub)
	_ = cl.State.Subscriptions.GetAll()
	_, _ = cl.State.Subscriptions.Get("a/b")
	_ = cl.State.Subscriptions.Len()
	// topic index
	s.Topics.Subscribe("c1", sub)
	s.Topics.Subscribe("c2", packets.Subscription{Filter: "$share/g/a/+"})
	s.Topics.InlineSubscribe(InlineSubscription{Subscription: packets.Subscription{Filter: "a/#", Identifier: 1}, Handler: vNopInline})
	_ = s.Topics.Subscribers("a/b")
	s.Topics.RetainMessage(vRetainPk("a/b", true))
	_ = s.Topics.Messages("a/#")
	_ = s.Topics.Messages("a/b")
	s.Topics.RetainMessage(vRetainPk("a/b", false))
	s.Topics.Unsubscribe("a/b", "c1")
	s.Topics.Unsubscribe("$share/g/a/+", "c2")
	s.Topics.InlineUnsubscribe(1, "a/#")
	_ = s.Topics.Retained.Len()
	_ = s.Topics.Retained.GetAll()
	// packets.Packets (delayed wills)
	s.loop.willDelayed.Add("x", packets.Packet{})
	_, _ = s.loop.willDelayed.Get("x")
	_ = s.loop.willDelayed.GetAll()
	s.loop.willDelayed.Delete("x")
	// client operations
	_, _ = cl.NextPacketID()
	_ = cl.WritePacket(packets.Packet{FixedHeader: packets.FixedHeader{Type: packets.Pingresp}})
	cl.ClearInflights()
	_ = cl.ClearExpiredInflights(10, 5)
	_ = cl.ResendInflightMessages(true)
	// hooks container
	_ = s.hooks.Len()
	_ = s.hooks.GetAll()
	_ = s.hooks.Provides(OnACLCheck)
	// housekeeping and inline API
	s.clearExpiredClients(1 << 40)
	s.clearExpiredInflights(1 << 40)
	s.clearExpiredRetainedMessages(1 << 40)
	s.sendDelayedLWT(1 << 40)
	s.publishSysTopics()
	_ = s.Subscribe("a/#", 2, vNopInline)
	_ = s.Publish("a/b", []byte{1}, true, 1)
	_ = s.Unsubscribe("a/#", 2)
	s.UnsubscribeClient(cl2)
	_ = s.DisconnectClient(cl2, packets.ErrServerShuttingDown)
	s.closeListenerClients("t1")
	vReach("end")
}

// listeners container
func VerifC32Handlers() {
	// every request type through the real handlers, from a state with deferred and in-flight messages
	s, _ := vNewServer(nil)
	c := vConn()
	cl := s.NewClient(c, "t1", "c1", false)
	cl.ParseConnect("t1", packets.Packet{ProtocolVersion: 5, Connect: packets.ConnectParams{ClientIdentifier: "c1"}, Properties: packets.Properties{ReceiveMaximum: 1, TopicAliasMaximum: 2}})
	s.Clients.Add(cl)
	sub := packets.Subscription{Filter: "t", Qos: 2}
	s.Topics.Subscribe("c1", sub)
	cl.State.Subscriptions.Add("t", sub)
	for i := 0; i < 2; i++ {
		s.publishToSubscribers(packets.Packet{FixedHeader: packets.FixedHeader{Type: packets.Publish, Qos: 2}, TopicName: "t", Payload: []byte{1}, Origin: "p"})
	}
	vFlush(cl)
	t := byte(vConcrete(int(vByteIn("\x03\x04\x05\x06\x07\x08\x0a\x0c\x0e")), 3, 14))
	pk := packets.Packet{ProtocolVersion: 5, FixedHeader: packets.FixedHeader{Type: t, Qos: vByteIn("\x00\x01\x02")}, PacketID: uint16(1 + vChoose(2)), TopicName: "t", Payload: []byte{2}}
	if t == packets.Subscribe || t == packets.Unsubscribe {
		pk.FixedHeader.Qos = 1
		pk.Filters = packets.Subscriptions{{Filter: "t"}}
	}
	_ = s.receivePacket(cl, pk)
	vFlush(cl)
	vReach("end")
}
