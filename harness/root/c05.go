package mqtt

import "github.com/mochi-mqtt/server/v2/packets"

// C05: a new subscription receives, per matching topic, the most recent retained message (none if it
// was cleared by an empty payload); Retain Handling 0/1/2; shared subscriptions never receive retained
// messages; nothing is retained while the server has retain unavailable.
func VerifC05Retained() {
	caps := NewDefaultServerCapabilities()
	caps.RetainAvailable = vByteIn("\x00\x01")
	s, _ := vNewServer(&Options{Capabilities: caps})
	pub, _ := vNewClient(s, "pub", 5)
	cl, c := vNewClient(s, "c1", 5)
	topics := []string{"a/b", "a/c"}
	filter := "a/+"
	if vParam("NEST", 0) == 1 {
		// parent and child topic, read back through a trailing '#'
		topics = []string{"a", "a/b"}
		filter = "a/#"
	}
	// history of h publishes, each to one of two topics, retain flag and payload symbolic
	h := vParam("H", 2)
	last := [2]byte{} // model: tag of the last retained non-empty payload per topic, 0 = none
	for i := 0; i < h; i++ {
		ti := vChoose(2)
		retain := vBool()
		empty := vBool()
		tag := byte(10 + i)
		pk := packets.Packet{ProtocolVersion: 5, FixedHeader: packets.FixedHeader{Type: packets.Publish, Retain: retain}, TopicName: topics[ti]}
		if !empty {
			pk.Payload = []byte{tag}
		}
		_ = s.processPacket(pub, pk)
		if retain && caps.RetainAvailable == 1 {
			if empty {
				last[ti] = 0
			} else {
				last[ti] = tag
			}
		}
	}
	vAssert("store-empty-when-retain-unavailable", caps.RetainAvailable == 1 || s.Topics.Retained.Len() == 0)
	// the subscription
	rh := vByteIn("\x00\x01\x02")
	shared := vBool()
	existed := vBool()
	if shared {
		filter = "$share/g/" + filter
	}
	sub := packets.Subscription{Filter: filter, Qos: 0, RetainHandling: rh, Identifier: vChoose(2)}
	if existed {
		s.Topics.Subscribe("c1", sub)
		cl.State.Subscriptions.Add(filter, sub)
	}
	_ = s.processPacket(cl, packets.Packet{ProtocolVersion: 5, FixedHeader: packets.FixedHeader{Type: packets.Subscribe, Qos: 1}, PacketID: 5, Filters: packets.Subscriptions{sub}})
	vFlush(cl)
	w := vParseWire(vConnWritten(c), 5)
	vAssert("transcript-parses", w.Trailing == 0 && len(w.Pkts) >= 1 && w.Pkts[0].Type == packets.Suback)
	send := !shared && (rh == 0 || (rh == 1 && !existed))
	for ti := 0; ti < 2; ti++ {
		n := 0
		for _, p := range w.Pkts {
			if p.Type == packets.Publish && p.Topic == topics[ti] {
				n++
				vAssert("retained-delivery-has-retain-flag", p.Flags&1 == 1)
				vAssert("retained-delivery-is-the-latest-payload", len(p.Payload) == 1 && p.Payload[0] == last[ti])
				if sub.Identifier > 0 {
					vAssert("retained-delivery-carries-subscription-identifier", len(p.SubIDs) == 1 && p.SubIDs[0] == sub.Identifier)
				} else {
					vAssert("retained-delivery-without-identifier", len(p.SubIDs) == 0)
				}
			}
		}
		if send && last[ti] != 0 {
			vAssert("retained-message-sent-once", n == 1)
		} else {
			vAssert("no-retained-message-sent", n == 0)
		}
	}
	vReach("end")
}
