package packets

import "bytes"

// C42: every encoding the specification permits a client to send decodes to the packet the sender meant.
// The wire bytes are produced by the reference encoder in ref.go from the intended field values
// (symbolic) and solver/decision-chosen encoding choices (shortened forms, property order).

// ---- PUBACK / PUBREC / PUBREL / PUBCOMP (v5): remaining length 2, 3, or full ----
func vC42Ack(t byte) {
	id := vU16()
	reason := vByte()
	form := vChoose(4) // 0: id only (rl=2)  1: id+reason (rl=3)  2: id+reason+proplen 0  3: id+reason+props
	hasRS := false
	hasUP := false
	var rs, uk, uv string
	var body []byte
	switch form {
	case 0:
		vAssume(reason == 0) // only a zero reason code may be omitted
		body = rU16(id)
	case 1:
		body = rCat(rU16(id), []byte{reason})
	case 2:
		body = rCat(rU16(id), []byte{reason}, []byte{0})
	default:
		hasRS = vChoose(2) == 1
		hasUP = vChoose(2) == 1
		var props [][]byte
		if hasRS {
			rs = vASCII(vLen(2))
			props = append(props, rCat([]byte{PropReasonString}, rStr(rs)))
		}
		if hasUP {
			uk, uv = vASCII(1), vASCII(vLen(1))
			props = append(props, rCat([]byte{PropUser}, rStr(uk), rStr(uv)))
		}
		pb := rPermute(props, vChoose(rFact(len(props))))
		body = rCat(rU16(id), []byte{reason}, rVarint(len(pb)), pb)
	}
	pk := Packet{ProtocolVersion: 5, FixedHeader: FixedHeader{Type: t, Remaining: len(body)}}
	err := vDecodeType(&pk, t, body)
	vAssert("ack-decodes", err == nil)
	vAssert("ack-id", pk.PacketID == id)
	vAssert("ack-reason", pk.ReasonCode == reason)
	if hasRS {
		vAssert("ack-reason-string", pk.Properties.ReasonString == rs)
	} else {
		vAssert("ack-no-reason-string", pk.Properties.ReasonString == "")
	}
	if hasUP {
		vAssert("ack-user", len(pk.Properties.User) == 1 && pk.Properties.User[0].Key == uk && pk.Properties.User[0].Val == uv)
	} else {
		vAssert("ack-no-user", len(pk.Properties.User) == 0)
	}
	vReach("end")
}

func VerifC42Puback()  { vC42Ack(Puback) }
func VerifC42Pubrec()  { vC42Ack(Pubrec) }
func VerifC42Pubrel()  { vC42Ack(Pubrel) }
func VerifC42Pubcomp() { vC42Ack(Pubcomp) }

// v3/v4 acknowledgements are always exactly the packet id
func VerifC42AckV4() {
	t := vByteIn("\x04\x05\x06\x07")
	id := vU16()
	ver := vByteIn("\x03\x04")
	pk := Packet{ProtocolVersion: ver, FixedHeader: FixedHeader{Type: t, Remaining: 2}}
	err := vDecodeType(&pk, byte(vConcrete(int(t), 4, 7)), rU16(id))
	vAssert("ackv4-decodes", err == nil)
	vAssert("ackv4-id", pk.PacketID == id)
	vReach("end")
}

// ---- DISCONNECT (v5): remaining length 0, 1, or full ----
func VerifC42Disconnect() {
	reason := vByte()
	form := vChoose(4) // 0: empty (rl=0)  1: reason only (rl=1)  2: reason + proplen 0  3: reason + props
	var body []byte
	hasSE, hasRS, hasUP := false, false, false
	var se uint32
	var rs, uk, uv string
	switch form {
	case 0:
		vAssume(reason == 0)
	case 1:
		body = []byte{reason}
	case 2:
		body = []byte{reason, 0}
	default:
		hasSE = vChoose(2) == 1
		hasRS = vChoose(2) == 1
		hasUP = vChoose(2) == 1
		var props [][]byte
		if hasSE {
			se = vU32()
			props = append(props, rCat([]byte{PropSessionExpiryInterval}, rU32(se)))
		}
		if hasRS {
			rs = vASCII(vLen(1))
			props = append(props, rCat([]byte{PropReasonString}, rStr(rs)))
		}
		if hasUP {
			uk, uv = vASCII(1), vASCII(1)
			props = append(props, rCat([]byte{PropUser}, rStr(uk), rStr(uv)))
		}
		pb := rPermute(props, vChoose(rFact(len(props))))
		body = rCat([]byte{reason}, rVarint(len(pb)), pb)
	}
	pk := Packet{ProtocolVersion: 5, FixedHeader: FixedHeader{Type: Disconnect, Remaining: len(body)}}
	err := pk.DisconnectDecode(body)
	vAssert("disconnect-decodes", err == nil)
	vAssert("disconnect-reason", pk.ReasonCode == reason)
	if hasSE {
		vAssert("disconnect-session-expiry", pk.Properties.SessionExpiryIntervalFlag && pk.Properties.SessionExpiryInterval == se)
	} else {
		vAssert("disconnect-no-session-expiry", !pk.Properties.SessionExpiryIntervalFlag)
	}
	if hasRS {
		vAssert("disconnect-reason-string", pk.Properties.ReasonString == rs)
	}
	if hasUP {
		vAssert("disconnect-user", len(pk.Properties.User) == 1 && pk.Properties.User[0].Key == uk && pk.Properties.User[0].Val == uv)
	}
	vReach("end")
}

// ---- AUTH (v5): remaining length 0, 1, or full ----
func VerifC42Auth() {
	reason := vByteIn("\x00\x18\x19")
	form := vChoose(4)
	var body []byte
	hasAM, hasAD, hasRS := false, false, false
	var am, rs string
	var ad []byte
	switch form {
	case 0:
		vAssume(reason == 0)
	case 1:
		body = []byte{reason}
	case 2:
		body = []byte{reason, 0}
	default:
		hasAM = vChoose(2) == 1
		hasAD = vChoose(2) == 1
		hasRS = vChoose(2) == 1
		var props [][]byte
		if hasAM {
			am = vASCII(vLen(2))
			props = append(props, rCat([]byte{PropAuthenticationMethod}, rStr(am)))
		}
		if hasAD {
			ad = vBytes(vLen(2))
			props = append(props, rCat([]byte{PropAuthenticationData}, rBin(ad)))
		}
		if hasRS {
			rs = vASCII(1)
			props = append(props, rCat([]byte{PropReasonString}, rStr(rs)))
		}
		pb := rPermute(props, vChoose(rFact(len(props))))
		body = rCat([]byte{reason}, rVarint(len(pb)), pb)
	}
	pk := Packet{ProtocolVersion: 5, FixedHeader: FixedHeader{Type: Auth, Remaining: len(body)}}
	err := pk.AuthDecode(body)
	vAssert("auth-decodes", err == nil)
	vAssert("auth-reason", pk.ReasonCode == reason)
	if hasAM {
		vAssert("auth-method", pk.Properties.AuthenticationMethod == am)
	}
	if hasAD {
		vAssert("auth-data", bytes.Equal(pk.Properties.AuthenticationData, ad))
	}
	if hasRS {
		vAssert("auth-reason-string", pk.Properties.ReasonString == rs)
	}
	vReach("end")
}

// ---- SUBSCRIBE (v4 / v5): filters, options, subscription identifier, property order ----
func VerifC42Subscribe() {
	ver := byte(vParam("VER", 5))
	id := vU16()
	nf := 1 + vLen(vParam("F", 2)-1)
	var filters []string
	var opts []byte
	var xb []byte
	for i := 0; i < nf; i++ {
		f := vASCII(1 + vLen(1))
		var o byte
		if ver == 5 {
			o = vByte()
			vAssume(o&3 != 3 && o&0x30 != 0x30 && o&0xC0 == 0) // QoS 0..2, retain handling 0..2, reserved bits 0
		} else {
			o = vByteIn("\x00\x01\x02")
		}
		filters = append(filters, f)
		opts = append(opts, o)
		xb = rCat(xb, rStr(f), []byte{o})
	}
	body := rU16(id)
	subid := 0
	hasID, hasUP := false, false
	var uk, uv string
	if ver == 5 {
		hasID = vChoose(2) == 1
		hasUP = vChoose(2) == 1
		var props [][]byte
		if hasID {
			subid = vRange(1, 268435455)
			vl := vChoose(4) // number of bytes the identifier needs
			lo := [4]int{1, 128, 16384, 2097152}
			hi := [4]int{127, 16383, 2097151, 268435455}
			vAssume(subid >= lo[vl] && subid <= hi[vl])
			props = append(props, rCat([]byte{PropSubscriptionIdentifier}, rVarint(subid)))
		}
		if hasUP {
			uk, uv = vASCII(1), vASCII(1)
			props = append(props, rCat([]byte{PropUser}, rStr(uk), rStr(uv)))
		}
		pb := rPermute(props, vChoose(rFact(len(props))))
		body = rCat(body, rVarint(len(pb)), pb)
	}
	body = rCat(body, xb)
	pk := Packet{ProtocolVersion: ver, FixedHeader: FixedHeader{Type: Subscribe, Qos: 1, Remaining: len(body)}}
	err := pk.SubscribeDecode(body)
	vAssert("subscribe-decodes", err == nil)
	vAssert("subscribe-id", pk.PacketID == id)
	vAssert("subscribe-nfilters", len(pk.Filters) == nf)
	for i := 0; i < nf && i < len(pk.Filters); i++ {
		s := pk.Filters[i]
		vAssert("subscribe-filter", s.Filter == filters[i])
		vAssert("subscribe-qos", s.Qos == opts[i]&3)
		if ver == 5 {
			vAssert("subscribe-nolocal", s.NoLocal == (opts[i]&4 != 0))
			vAssert("subscribe-rap", s.RetainAsPublished == (opts[i]&8 != 0))
			vAssert("subscribe-rh", s.RetainHandling == (opts[i]>>4)&3)
			if hasID {
				vAssert("subscribe-identifier", s.Identifier == subid)
			} else {
				vAssert("subscribe-no-identifier", s.Identifier == 0)
			}
		}
	}
	if hasUP {
		vAssert("subscribe-user", len(pk.Properties.User) == 1 && pk.Properties.User[0].Key == uk && pk.Properties.User[0].Val == uv)
	}
	vReach("end")
}

// ---- UNSUBSCRIBE ----
func VerifC42Unsubscribe() {
	ver := byte(vParam("VER", 5))
	id := vU16()
	nf := 1 + vLen(1)
	var filters []string
	var xb []byte
	for i := 0; i < nf; i++ {
		f := vASCII(1 + vLen(1))
		filters = append(filters, f)
		xb = rCat(xb, rStr(f))
	}
	body := rU16(id)
	hasUP := false
	var uk, uv string
	if ver == 5 {
		hasUP = vChoose(2) == 1
		var pb []byte
		if hasUP {
			uk, uv = vASCII(1), vASCII(1)
			pb = rCat([]byte{PropUser}, rStr(uk), rStr(uv))
		}
		body = rCat(body, rVarint(len(pb)), pb)
	}
	body = rCat(body, xb)
	pk := Packet{ProtocolVersion: ver, FixedHeader: FixedHeader{Type: Unsubscribe, Qos: 1, Remaining: len(body)}}
	err := pk.UnsubscribeDecode(body)
	vAssert("unsubscribe-decodes", err == nil)
	vAssert("unsubscribe-id", pk.PacketID == id)
	vAssert("unsubscribe-nfilters", len(pk.Filters) == nf)
	for i := 0; i < nf && i < len(pk.Filters); i++ {
		vAssert("unsubscribe-filter", pk.Filters[i].Filter == filters[i])
	}
	if hasUP {
		vAssert("unsubscribe-user", len(pk.Properties.User) == 1 && pk.Properties.User[0].Key == uk)
	}
	vReach("end")
}

// ---- PUBLISH (v4 / v5): topic, id, properties in any order, payload ----
func VerifC42Publish() {
	ver := byte(vParam("VER", 5))
	qos := vByteIn("\x00\x01\x02")
	topic := vASCII(vLen(1))
	payload := vBytes(vLen(1))
	var id uint16
	body := rStr(topic)
	q := vConcrete(int(qos), 0, 2)
	if q > 0 {
		id = vU16()
		body = rCat(body, rU16(id))
	}
	// up to three of: payload format, message expiry, topic alias, content type, response topic, correlation data
	var pf byte
	var me uint32
	var ta uint16
	var ct, rt string
	var cd []byte
	has := [6]bool{}
	if ver == 5 {
		var props [][]byte
		cnt := 0
		for i := 0; i < vParam("PROPS", 4); i++ {
			if cnt < 3 && vChoose(2) == 1 {
				has[i] = true
				cnt++
			}
		}
		if has[0] {
			pf = vByteIn("\x00\x01")
			props = append(props, []byte{PropPayloadFormat, pf})
		}
		if has[1] {
			me = vU32()
			props = append(props, rCat([]byte{PropMessageExpiryInterval}, rU32(me)))
		}
		if has[2] {
			ta = vU16()
			props = append(props, rCat([]byte{PropTopicAlias}, rU16(ta)))
		}
		if has[3] {
			ct = vASCII(1)
			props = append(props, rCat([]byte{PropContentType}, rStr(ct)))
		}
		if has[4] {
			rt = vASCII(1)
			props = append(props, rCat([]byte{PropResponseTopic}, rStr(rt)))
		}
		if has[5] {
			cd = vBytes(1)
			props = append(props, rCat([]byte{PropCorrelationData}, rBin(cd)))
		}
		pb := rPermute(props, vChoose(rFact(len(props))))
		body = rCat(body, rVarint(len(pb)), pb)
	}
	body = rCat(body, payload)
	pk := Packet{ProtocolVersion: ver, FixedHeader: FixedHeader{Type: Publish, Qos: byte(q), Remaining: len(body)}}
	err := pk.PublishDecode(body)
	vAssert("publish-decodes", err == nil)
	vAssert("publish-topic", pk.TopicName == topic)
	vAssert("publish-payload", bytes.Equal(pk.Payload, payload))
	if q > 0 {
		vAssert("publish-id", pk.PacketID == id)
	}
	if ver == 5 {
		vAssert("publish-payload-format", pk.Properties.PayloadFormatFlag == has[0] && pk.Properties.PayloadFormat == pf)
		vAssert("publish-expiry", pk.Properties.MessageExpiryInterval == me)
		vAssert("publish-alias", pk.Properties.TopicAliasFlag == has[2] && pk.Properties.TopicAlias == ta)
		vAssert("publish-content-type", pk.Properties.ContentType == ct)
		vAssert("publish-response-topic", pk.Properties.ResponseTopic == rt)
		vAssert("publish-correlation", bytes.Equal(pk.Properties.CorrelationData, cd))
	}
	vReach("end")
}

// VerifC42Connect: a CONNECT written from the specification (MQTT 3.1.2 / 3.1.3) with any combination of clean
// start, will (QoS, retain), user name and password presence - in MQTT 5 a password may come without a user
// name - and, for MQTT 5, connect properties in any order, decodes to the sender's values.
func VerifC42Connect() {
	ver := byte(vParam("VER", 5))
	clean, will, wret := vBool(), vBool(), vBool()
	wq := vByteIn("\x00\x01\x02")
	hasUser, hasPass := vBool(), vBool()
	if ver < 5 {
		vAssume(hasUser || !hasPass) // [MQTT-3.1.2-22]
	}
	keep := vU16()
	id := vASCII(vLen(2))
	user, pass := vASCII(1+vLen(1)), vBytes(1+vLen(1))
	var flags byte
	if clean {
		flags |= 0x02
	}
	if will {
		flags |= 0x04 | byte(vConcrete(int(wq), 0, 2))<<3
		if wret {
			flags |= 0x20
		}
	}
	if hasPass {
		flags |= 0x40
	}
	if hasUser {
		flags |= 0x80
	}
	body := rCat(rStr("MQTT"), []byte{ver, flags}, rU16(keep))
	var sei uint32
	var rm uint16
	if ver == 5 {
		sei, rm = vU32(), vU16()
		vAssume(rm != 0)
		props := [][]byte{rCat([]byte{PropSessionExpiryInterval}, rU32(sei)), rCat([]byte{PropReceiveMaximum}, rU16(rm))}
		pb := rPermute(props, vChoose(2))
		body = rCat(body, rVarint(len(pb)), pb)
	}
	body = rCat(body, rStr(id))
	if will {
		if ver == 5 {
			body = rCat(body, []byte{0})
		}
		body = rCat(body, rStr("w"), rBin([]byte{7}))
	}
	if hasUser {
		body = rCat(body, rStr(user))
	}
	if hasPass {
		body = rCat(body, rBin(pass))
	}
	pk := Packet{FixedHeader: FixedHeader{Type: Connect, Remaining: len(body)}}
	err := pk.ConnectDecode(body)
	vAssert("connect-decodes", err == nil)
	if err != nil {
		return
	}
	vAssert("connect-version-and-keepalive", pk.ProtocolVersion == ver && pk.Connect.Keepalive == keep && pk.Connect.Clean == clean)
	vAssert("connect-client-id", pk.Connect.ClientIdentifier == id)
	vAssert("connect-will", pk.Connect.WillFlag == will && (!will || (pk.Connect.WillQos == wq && pk.Connect.WillRetain == wret && pk.Connect.WillTopic == "w" && len(pk.Connect.WillPayload) == 1 && pk.Connect.WillPayload[0] == 7)))
	vAssert("connect-user-name", pk.Connect.UsernameFlag == hasUser && (!hasUser || string(pk.Connect.Username) == user))
	vAssert("connect-password", pk.Connect.PasswordFlag == hasPass && (!hasPass || bytes.Equal(pk.Connect.Password, pass)))
	if ver == 5 {
		vAssert("connect-properties", pk.Properties.SessionExpiryInterval == sei && pk.Properties.SessionExpiryIntervalFlag && pk.Properties.ReceiveMaximum == rm)
	}
	vReach("end")
}
