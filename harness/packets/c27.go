package packets

import "bytes"

// C27: every decoder is total on every byte string of length 0..N, for protocol versions 3, 4, 5.
// A Go panic (index/slice out of range, nil map ...) raised by the engine exactly where the runtime
// would raise it ends the path as a violation "no-panic".

func vDecodeType(pk *Packet, t byte, b []byte) error {
	switch t {
	case Connect:
		return pk.ConnectDecode(b)
	case Connack:
		return pk.ConnackDecode(b)
	case Publish:
		return pk.PublishDecode(b)
	case Puback:
		return pk.PubackDecode(b)
	case Pubrec:
		return pk.PubrecDecode(b)
	case Pubrel:
		return pk.PubrelDecode(b)
	case Pubcomp:
		return pk.PubcompDecode(b)
	case Subscribe:
		return pk.SubscribeDecode(b)
	case Suback:
		return pk.SubackDecode(b)
	case Unsubscribe:
		return pk.UnsubscribeDecode(b)
	case Unsuback:
		return pk.UnsubackDecode(b)
	case Disconnect:
		return pk.DisconnectDecode(b)
	case Auth:
		return pk.AuthDecode(b)
	}
	return nil
}

func vC27(t byte) {
	ver := byte(vParam("VER", 5))
	n := vLen(vParam("N", 8))
	b := vBytes(n)
	pk := Packet{ProtocolVersion: ver, FixedHeader: FixedHeader{Type: t, Remaining: n}}
	if t == Publish {
		pk.FixedHeader.Qos = vByteIn("\x00\x01\x02")
	}
	err := vDecodeType(&pk, t, b)
	if err == nil {
		vReach("accepted")
		// nothing the decoder returns may extend beyond the input
		vAssert("topic-within-input", len(pk.TopicName) <= n)
		vAssert("payload-within-input", len(pk.Payload) <= n)
		vAssert("filters-within-input", len(pk.Filters) <= n)
		vAssert("reasoncodes-within-input", len(pk.ReasonCodes) <= n)
	} else {
		vReach("rejected")
	}
}

func VerifC27Connect()     { vC27(Connect) }
func VerifC27Connack()     { vC27(Connack) }
func VerifC27Publish()     { vC27(Publish) }
func VerifC27Puback()      { vC27(Puback) }
func VerifC27Pubrec()      { vC27(Pubrec) }
func VerifC27Pubrel()      { vC27(Pubrel) }
func VerifC27Pubcomp()     { vC27(Pubcomp) }
func VerifC27Subscribe()   { vC27(Subscribe) }
func VerifC27Suback()      { vC27(Suback) }
func VerifC27Unsubscribe() { vC27(Unsubscribe) }
func VerifC27Unsuback()    { vC27(Unsuback) }
func VerifC27Disconnect()  { vC27(Disconnect) }
func VerifC27Auth()        { vC27(Auth) }

// declared lengths: decodeString/decodeBytes/decodeLength-prefixed reads on an arbitrary buffer and offset
func VerifC27Primitives() {
	n := vLen(vParam("N", 6))
	b := vBytes(n)
	off := vLen(n + 1)
	s, o1, err := decodeString(b, off)
	if err == nil {
		vReach("string-ok")
		vAssert("string-offset-within", o1 <= n && o1 >= off)
		vAssert("string-len", len(s) == o1-off-2)
	}
	bs, o2, err := decodeBytes(b, off)
	if err == nil {
		vReach("bytes-ok")
		vAssert("bytes-offset-within", o2 <= n && o2 >= off)
		vAssert("bytes-len", len(bs) == o2-off-2)
	}
	_, o3, err := decodeUint16(b, off)
	if err == nil {
		vAssert("u16-offset", o3 == off+2 && o3 <= n)
	}
	_, o4, err := decodeUint32(b, off)
	if err == nil {
		vAssert("u32-offset", o4 == off+4 && o4 <= n)
	}
	_, o5, err := decodeByte(b, off)
	if err == nil {
		vAssert("byte-offset", o5 == off+1 && o5 <= n)
	}
	vReach("end")
}

// VerifC27LongProps: property sections longer than 255 bytes, where string lengths need both length bytes and
// offsets pass the one-byte range: HEAD symbolic bytes, a filler of 'a' of every length FILL..FILL+FILLN (default 250..257), TAIL symbolic
// bytes, decoded as the properties of a PUBLISH. The decoder must return (accepting or rejecting) within a step
// budget - a decoder that loops on some input is not total - and must not panic.
func VerifC27LongProps() {
	head := vBytes(vParam("HEAD", 5))
	fill := vParam("FILL", 250) + vLen(vParam("FILLN", 7))
	tail := vBytes(vParam("TAIL", 3))
	var body []byte
	body = append(body, head...)
	for i := 0; i < fill; i++ {
		body = append(body, 'a')
	}
	body = append(body, tail...)
	n := len(body) // 258..265: a two-byte variable byte integer
	sec := append([]byte{byte(n&0x7f) | 0x80, byte(n >> 7)}, body...)
	p := new(Properties)
	vTerminates("properties-decode-terminates", 200)
	_, err := p.Decode(Publish, bytes.NewBuffer(sec))
	vTerminated()
	if err == nil {
		vReach("accepted")
	} else {
		vReach("rejected")
	}
}
