package packets

import "bytes"

// C29(b): bytes -> value. Any byte string of 0..N bytes (then EOF).
func VerifC29Decode() {
	n := vLen(vParam("N", 7))
	b := vBytes(n)
	v, used, err := DecodeLength(bytes.NewBuffer(b))
	if err == nil {
		vReach("accept")
		vObserve("value", uint64(v))
		vObserve("used", uint64(used))
		vAssert("le4bytes", used <= 4)
		vAssert("leMax", v <= 268435455)
		var out bytes.Buffer
		encodeLength(&out, int64(v))
		vAssert("canonical", bytes.Equal(out.Bytes(), b[:used]))
	} else {
		vReach("reject")
	}
}

// C29(a): value -> bytes -> value, whole 28-bit range symbolically.
func VerifC29Encode() {
	v := vI64()
	vAssume(v >= 0)
	vAssume(v <= 268435455)
	var out bytes.Buffer
	encodeLength(&out, v)
	n := out.Len()
	min := 4
	if v < 128 {
		min = 1
	} else if v < 16384 {
		min = 2
	} else if v < 2097152 {
		min = 3
	}
	vObserve("n", uint64(n))
	vAssert("minimal", n == min)
	d, bu, err := DecodeLength(&out)
	vAssert("noerr", err == nil)
	vAssert("roundtrip", int64(d) == v)
	vAssert("bu", bu == min)
	vReach("end")
}
