package packets

import "bytes"

// C29(b): bytes -> value. Any byte string of 0..N bytes (then EOF).
func VerifC29Decode() {
	n := vLen(vParam("N", 7))
	b := vBytes(n)
	v, used, err := DecodeLength(bytes.NewBuffer(b))
	if err == nil {
		vReach("accept")
		vObserve("value", uint64(v))
		vObserve("used", uint64(used))
		vAssert("le4bytes", used <= 4)
		vAssert("leMax", v <= 268435455)
		// the statement does not require the decoder to refuse non-minimal encodings (e.g. 80 00),
		// only that what the codec writes is minimal: re-encoding the decoded value must not be longer.
		var out bytes.Buffer
		encodeLength(&out, int64(v))
		vAssert("reencode-not-longer", out.Len() <= used)
		d2, _, err2 := DecodeLength(&out)
		vAssert("reencode-roundtrip", err2 == nil && d2 == v)
	} else {
		vReach("reject")
	}
	// a fifth byte is never consumed, whatever the outcome
	vAssert("consumed-le4", used <= 4)
}

// C29(a): value -> bytes -> value, whole 28-bit range symbolically.
func VerifC29Encode() {
	v := vI64()
	vAssume(v >= 0)
	vAssume(v <= 268435455)
	var out bytes.Buffer
	encodeLength(&out, v)
	n := out.Len()
	min := 4
	if v < 128 {
		min = 1
	} else if v < 16384 {
		min = 2
	} else if v < 2097152 {
		min = 3
	}
	vObserve("n", uint64(n))
	vAssert("minimal", n == min)
	d, bu, err := DecodeLength(&out)
	vAssert("noerr", err == nil)
	vAssert("roundtrip", int64(d) == v)
	vAssert("bu", bu == min)
	vReach("end")
}
