package packets

import "bytes"

// C26: encode -> decode round trip for every packet type and protocol version (direction 1), and
// decode -> encode -> decode on every accepted byte string (direction 2).

func vEncodeType(pk *Packet, t byte, buf *bytes.Buffer) error {
	switch t {
	case Connect:
		return pk.ConnectEncode(buf)
	case Connack:
		return pk.ConnackEncode(buf)
	case Publish:
		return pk.PublishEncode(buf)
	case Puback:
		return pk.PubackEncode(buf)
	case Pubrec:
		return pk.PubrecEncode(buf)
	case Pubrel:
		return pk.PubrelEncode(buf)
	case Pubcomp:
		return pk.PubcompEncode(buf)
	case Subscribe:
		return pk.SubscribeEncode(buf)
	case Suback:
		return pk.SubackEncode(buf)
	case Unsubscribe:
		return pk.UnsubscribeEncode(buf)
	case Unsuback:
		return pk.UnsubackEncode(buf)
	case Pingreq:
		return pk.PingreqEncode(buf)
	case Pingresp:
		return pk.PingrespEncode(buf)
	case Disconnect:
		return pk.DisconnectEncode(buf)
	case Auth:
		return pk.AuthEncode(buf)
	}
	return nil
}

func vText(max int) string { return vStrIn(vLen(max), "ab/") }

func vUserProps(max int) []UserProperty {
	n := vLen(max)
	var u []UserProperty
	for i := 0; i < n; i++ {
		u = append(u, UserProperty{Key: vText(1), Val: vText(1)})
	}
	return u
}

func vUserEq(a, b []UserProperty) bool {
	if len(a) != len(b) {
		return false
	}
	for i := range a {
		if a[i].Key != b[i].Key || a[i].Val != b[i].Val {
			return false
		}
	}
	return true
}

func vIntsEq(a, b []int) bool {
	if len(a) != len(b) {
		return false
	}
	for i := range a {
		if a[i] != b[i] {
			return false
		}
	}
	return true
}

// semantic value of a flagged property with a specified default
func vDef(flag bool, v, def byte) byte {
	if flag {
		return v
	}
	return def
}

// vPropsEq asserts equivalence of the properties legal for packet type t (omitted optional = default).
func vPropsEq(t byte, a, b *Properties) {
	can := func(k byte) bool { return validPacketProperties[k][t] == 1 }
	if can(PropPayloadFormat) {
		vAssert("prop-payload-format", vDef(a.PayloadFormatFlag, a.PayloadFormat, 0) == vDef(b.PayloadFormatFlag, b.PayloadFormat, 0))
	}
	if can(PropMessageExpiryInterval) {
		vAssert("prop-message-expiry", a.MessageExpiryInterval == b.MessageExpiryInterval)
	}
	if can(PropContentType) {
		vAssert("prop-content-type", a.ContentType == b.ContentType)
	}
	if can(PropResponseTopic) {
		vAssert("prop-response-topic", a.ResponseTopic == b.ResponseTopic)
	}
	if can(PropCorrelationData) {
		vAssert("prop-correlation-data", bytes.Equal(a.CorrelationData, b.CorrelationData))
	}
	if can(PropSubscriptionIdentifier) {
		vAssert("prop-subscription-identifier", vIntsEq(a.SubscriptionIdentifier, b.SubscriptionIdentifier))
	}
	if can(PropSessionExpiryInterval) {
		var x, y uint32
		if a.SessionExpiryIntervalFlag {
			x = a.SessionExpiryInterval
		}
		if b.SessionExpiryIntervalFlag {
			y = b.SessionExpiryInterval
		}
		vAssert("prop-session-expiry", x == y)
	}
	if can(PropAssignedClientID) {
		vAssert("prop-assigned-client-id", a.AssignedClientID == b.AssignedClientID)
	}
	if can(PropServerKeepAlive) {
		vAssert("prop-server-keepalive", a.ServerKeepAliveFlag == b.ServerKeepAliveFlag && (!a.ServerKeepAliveFlag || a.ServerKeepAlive == b.ServerKeepAlive))
	}
	if can(PropAuthenticationMethod) {
		vAssert("prop-auth-method", a.AuthenticationMethod == b.AuthenticationMethod)
	}
	if can(PropAuthenticationData) {
		vAssert("prop-auth-data", bytes.Equal(a.AuthenticationData, b.AuthenticationData))
	}
	if can(PropRequestProblemInfo) {
		vAssert("prop-request-problem-info", vDef(a.RequestProblemInfoFlag, a.RequestProblemInfo, 1) == vDef(b.RequestProblemInfoFlag, b.RequestProblemInfo, 1))
	}
	if can(PropWillDelayInterval) {
		vAssert("prop-will-delay", a.WillDelayInterval == b.WillDelayInterval)
	}
	if can(PropRequestResponseInfo) {
		vAssert("prop-request-response-info", a.RequestResponseInfo == b.RequestResponseInfo)
	}
	if can(PropResponseInfo) {
		vAssert("prop-response-info", a.ResponseInfo == b.ResponseInfo)
	}
	if can(PropServerReference) {
		vAssert("prop-server-reference", a.ServerReference == b.ServerReference)
	}
	if can(PropReasonString) {
		vAssert("prop-reason-string", a.ReasonString == b.ReasonString)
	}
	if can(PropReceiveMaximum) {
		vAssert("prop-receive-maximum", a.ReceiveMaximum == b.ReceiveMaximum)
	}
	if can(PropTopicAliasMaximum) {
		vAssert("prop-topic-alias-maximum", a.TopicAliasMaximum == b.TopicAliasMaximum)
	}
	if can(PropTopicAlias) {
		var x, y uint16
		if a.TopicAliasFlag {
			x = a.TopicAlias
		}
		if b.TopicAliasFlag {
			y = b.TopicAlias
		}
		vAssert("prop-topic-alias", x == y)
	}
	if can(PropMaximumQos) {
		vAssert("prop-maximum-qos", vDef(a.MaximumQosFlag, a.MaximumQos, 2) == vDef(b.MaximumQosFlag, b.MaximumQos, 2))
	}
	if can(PropRetainAvailable) {
		vAssert("prop-retain-available", vDef(a.RetainAvailableFlag, a.RetainAvailable, 1) == vDef(b.RetainAvailableFlag, b.RetainAvailable, 1))
	}
	if can(PropUser) {
		vAssert("prop-user", vUserEq(a.User, b.User))
	}
	if can(PropMaximumPacketSize) {
		vAssert("prop-maximum-packet-size", a.MaximumPacketSize == b.MaximumPacketSize)
	}
	if can(PropWildcardSubAvailable) {
		vAssert("prop-wildcard-sub", vDef(a.WildcardSubAvailableFlag, a.WildcardSubAvailable, 1) == vDef(b.WildcardSubAvailableFlag, b.WildcardSubAvailable, 1))
	}
	if can(PropSubIDAvailable) {
		vAssert("prop-subid-available", vDef(a.SubIDAvailableFlag, a.SubIDAvailable, 1) == vDef(b.SubIDAvailableFlag, b.SubIDAvailable, 1))
	}
	if can(PropSharedSubAvailable) {
		vAssert("prop-shared-sub", vDef(a.SharedSubAvailableFlag, a.SharedSubAvailable, 1) == vDef(b.SharedSubAvailableFlag, b.SharedSubAvailable, 1))
	}
}

// vPacketEq asserts equivalence of the wire-relevant fields of two packets of type t.
func vPacketEq(t, ver byte, a, b *Packet) {
	vAssert("eq-type", a.FixedHeader.Type == b.FixedHeader.Type)
	switch t {
	case Connect:
		vAssert("eq-protocol-name", bytes.Equal(a.Connect.ProtocolName, b.Connect.ProtocolName))
		vAssert("eq-protocol-version", a.ProtocolVersion == b.ProtocolVersion)
		vAssert("eq-clean", a.Connect.Clean == b.Connect.Clean)
		vAssert("eq-keepalive", a.Connect.Keepalive == b.Connect.Keepalive)
		vAssert("eq-client-id", a.Connect.ClientIdentifier == b.Connect.ClientIdentifier)
		vAssert("eq-will-flag", a.Connect.WillFlag == b.Connect.WillFlag)
		vAssert("eq-will-qos", a.Connect.WillQos == b.Connect.WillQos)
		vAssert("eq-will-retain", a.Connect.WillRetain == b.Connect.WillRetain)
		if a.Connect.WillFlag {
			vAssert("eq-will-topic", a.Connect.WillTopic == b.Connect.WillTopic)
			vAssert("eq-will-payload", bytes.Equal(a.Connect.WillPayload, b.Connect.WillPayload))
			if ver == 5 {
				vPropsEq(WillProperties, &a.Connect.WillProperties, &b.Connect.WillProperties)
			}
		}
		vAssert("eq-username-flag", a.Connect.UsernameFlag == b.Connect.UsernameFlag)
		vAssert("eq-password-flag", a.Connect.PasswordFlag == b.Connect.PasswordFlag)
		if a.Connect.UsernameFlag {
			vAssert("eq-username", bytes.Equal(a.Connect.Username, b.Connect.Username))
		}
		if a.Connect.PasswordFlag {
			vAssert("eq-password", bytes.Equal(a.Connect.Password, b.Connect.Password))
		}
	case Connack:
		vAssert("eq-session-present", a.SessionPresent == b.SessionPresent)
		vAssert("eq-reason", a.ReasonCode == b.ReasonCode)
	case Publish:
		vAssert("eq-qos", a.FixedHeader.Qos == b.FixedHeader.Qos)
		vAssert("eq-dup", a.FixedHeader.Dup == b.FixedHeader.Dup)
		vAssert("eq-retain", a.FixedHeader.Retain == b.FixedHeader.Retain)
		vAssert("eq-topic", a.TopicName == b.TopicName)
		vAssert("eq-payload", bytes.Equal(a.Payload, b.Payload))
		if a.FixedHeader.Qos > 0 {
			vAssert("eq-packet-id", a.PacketID == b.PacketID)
		}
	case Puback, Pubrec, Pubrel, Pubcomp:
		vAssert("eq-packet-id", a.PacketID == b.PacketID)
		if ver == 5 {
			vAssert("eq-reason", a.ReasonCode == b.ReasonCode)
		}
	case Subscribe:
		vAssert("eq-packet-id", a.PacketID == b.PacketID)
		vAssert("eq-nfilters", len(a.Filters) == len(b.Filters))
		for i := 0; i < len(a.Filters) && i < len(b.Filters); i++ {
			x, y := a.Filters[i], b.Filters[i]
			vAssert("eq-filter", x.Filter == y.Filter)
			vAssert("eq-filter-qos", x.Qos == y.Qos)
			if ver == 5 {
				vAssert("eq-filter-options", x.NoLocal == y.NoLocal && x.RetainAsPublished == y.RetainAsPublished && x.RetainHandling == y.RetainHandling)
			}
		}
	case Suback:
		vAssert("eq-packet-id", a.PacketID == b.PacketID)
		vAssert("eq-reason-codes", bytes.Equal(a.ReasonCodes, b.ReasonCodes))
	case Unsubscribe:
		vAssert("eq-packet-id", a.PacketID == b.PacketID)
		vAssert("eq-nfilters", len(a.Filters) == len(b.Filters))
		for i := 0; i < len(a.Filters) && i < len(b.Filters); i++ {
			vAssert("eq-filter", a.Filters[i].Filter == b.Filters[i].Filter)
		}
	case Unsuback:
		vAssert("eq-packet-id", a.PacketID == b.PacketID)
		if ver == 5 {
			vAssert("eq-reason-codes", bytes.Equal(a.ReasonCodes, b.ReasonCodes))
		}
	case Disconnect, Auth:
		if ver == 5 {
			vAssert("eq-reason", a.ReasonCode == b.ReasonCode)
		}
	}
	if ver == 5 {
		vPropsEq(t, &a.Properties, &b.Properties)
	}
}

// vSplit parses the fixed header of wire and returns the body; asserts the remaining length is exact.
func vSplit(wire []byte, pk *Packet) []byte {
	vAssert("wire-has-header", len(wire) >= 2)
	err := pk.FixedHeader.Decode(wire[0])
	vAssert("fixed-header-decodes", err == nil)
	rl, bu, err := DecodeLength(bytes.NewBuffer(wire[1:]))
	vAssert("remaining-length-decodes", err == nil)
	vAssert("remaining-length-exact", rl == len(wire)-1-bu)
	pk.FixedHeader.Remaining = rl
	return wire[1+bu:]
}

// vSymProps fills the properties legal for t with symbolic values; mask selects which optional
// properties may be present (bit i = i-th candidate), keeping path counts in hand.
func vSymProps(t byte, p *Properties, L int) {
	can := func(k byte) bool { return validPacketProperties[k][t] == 1 }
	// G groups: only the optional properties whose running index falls in group GRP may be present
	// (G=1: all of them at once). Keeps quick-tier path counts in hand; the bound is stated.
	G, grp, idx := vParam("G", 1), vParam("GRP", 0), 0
	on := func() bool {
		idx++
		if idx%G != grp {
			return false
		}
		return vChoose(2) == 1
	}
	if can(PropPayloadFormat) && on() {
		p.PayloadFormatFlag = true
		p.PayloadFormat = vByteIn("\x00\x01")
	}
	if can(PropMessageExpiryInterval) && on() {
		p.MessageExpiryInterval = vU32()
	}
	if can(PropContentType) && on() {
		p.ContentType = vText(L)
	}
	if can(PropResponseTopic) && on() {
		p.ResponseTopic = vText(L)
	}
	if can(PropCorrelationData) && on() {
		p.CorrelationData = vBytes(vLen(L))
	}
	if can(PropSessionExpiryInterval) && on() {
		p.SessionExpiryIntervalFlag = true
		p.SessionExpiryInterval = vU32()
	}
	if can(PropAssignedClientID) && on() {
		p.AssignedClientID = vText(L)
	}
	if can(PropServerKeepAlive) && on() {
		p.ServerKeepAliveFlag = true
		p.ServerKeepAlive = vU16()
	}
	if can(PropAuthenticationMethod) && on() {
		p.AuthenticationMethod = vText(L)
	}
	if can(PropAuthenticationData) && on() {
		p.AuthenticationData = vBytes(vLen(L))
	}
	if can(PropRequestProblemInfo) && on() {
		p.RequestProblemInfoFlag = true
		p.RequestProblemInfo = vByteIn("\x00\x01")
	}
	if can(PropWillDelayInterval) && on() {
		p.WillDelayInterval = vU32()
	}
	if can(PropRequestResponseInfo) && on() {
		p.RequestResponseInfo = vByteIn("\x00\x01")
	}
	if can(PropResponseInfo) && on() {
		p.ResponseInfo = vText(L)
	}
	if can(PropServerReference) && on() {
		p.ServerReference = vText(L)
	}
	if can(PropReasonString) && on() {
		p.ReasonString = vText(L)
	}
	if can(PropReceiveMaximum) && on() {
		p.ReceiveMaximum = vU16()
	}
	if can(PropTopicAliasMaximum) && on() {
		p.TopicAliasMaximum = vU16()
	}
	if can(PropTopicAlias) && on() {
		p.TopicAliasFlag = true
		p.TopicAlias = vU16()
		vAssume(p.TopicAlias > 0) // alias 0 is not a well-formed packet [MQTT-3.3.2-8]
	}
	if can(PropMaximumQos) && on() {
		p.MaximumQosFlag = true
		p.MaximumQos = vByteIn("\x00\x01") // 2 is expressed by omission
	}
	if can(PropRetainAvailable) && on() {
		p.RetainAvailableFlag = true
		p.RetainAvailable = vByteIn("\x00\x01")
	}
	if can(PropUser) {
		p.User = vUserProps(vParam("USER", 1))
	}
	if can(PropMaximumPacketSize) && on() {
		p.MaximumPacketSize = vU32()
	}
	if can(PropWildcardSubAvailable) && on() {
		p.WildcardSubAvailableFlag = true
		p.WildcardSubAvailable = vByteIn("\x00\x01")
	}
	if can(PropSubIDAvailable) && on() {
		p.SubIDAvailableFlag = true
		p.SubIDAvailable = vByteIn("\x00\x01")
	}
	if can(PropSharedSubAvailable) && on() {
		p.SharedSubAvailableFlag = true
		p.SharedSubAvailable = vByteIn("\x00\x01")
	}
}

// direction 1
func vC26(t byte) {
	ver := byte(vParam("VER", 5))
	L := vParam("L", 1)
	pk := Packet{ProtocolVersion: ver, FixedHeader: FixedHeader{Type: t}}
	pk.Mods.AllowResponseInfo = true // nothing suppressed
	switch t {
	case Connect:
		if ver == 3 {
			pk.Connect.ProtocolName = []byte("MQIsdp")
		} else {
			pk.Connect.ProtocolName = []byte("MQTT")
		}
		pk.Connect.Clean = vBool()
		pk.Connect.Keepalive = vU16()
		pk.Connect.ClientIdentifier = vText(L)
		if vChoose(2) == 1 {
			pk.Connect.WillFlag = true
			pk.Connect.WillQos = vByteIn("\x00\x01\x02")
			pk.Connect.WillRetain = vBool()
			pk.Connect.WillTopic = vStrIn(1+vLen(L), "ab/")
			pk.Connect.WillPayload = vBytes(1 + vLen(L))
			if ver == 5 && vParam("WILLPROPS", 0) == 1 {
				vSymProps(WillProperties, &pk.Connect.WillProperties, L)
			}
		}
		if vChoose(2) == 1 {
			pk.Connect.UsernameFlag = true
			pk.Connect.Username = vBytes(vLen(L))
		}
		if vChoose(2) == 1 {
			pk.Connect.PasswordFlag = true
			pk.Connect.Password = vBytes(1 + vLen(L))
		}
	case Connack:
		pk.SessionPresent = vBool()
		pk.ReasonCode = vByte()
	case Publish:
		pk.FixedHeader.Qos = vByteIn("\x00\x01\x02")
		pk.FixedHeader.Retain = vBool()
		pk.FixedHeader.Dup = vBool()
		vAssume(!(pk.FixedHeader.Qos == 0 && pk.FixedHeader.Dup)) // [MQTT-3.3.1-2]
		pk.TopicName = vText(L + 1)
		pk.Payload = vBytes(vLen(L + 1))
		if vConcrete(int(pk.FixedHeader.Qos), 0, 2) > 0 {
			pk.PacketID = vU16()
			vAssume(pk.PacketID != 0)
		}
	case Puback, Pubrec, Pubrel, Pubcomp:
		pk.PacketID = vU16()
		pk.ReasonCode = vByte()
		if t == Pubrel {
			pk.FixedHeader.Qos = 1
		}
	case Subscribe:
		pk.FixedHeader.Qos = 1
		pk.PacketID = vU16()
		vAssume(pk.PacketID != 0)
		n := 1 + vLen(vParam("F", 2)-1)
		for i := 0; i < n; i++ {
			s := Subscription{Filter: vStrIn(1+vLen(L), "ab/+#"), Qos: vByteIn("\x00\x01\x02")}
			if ver == 5 {
				s.NoLocal, s.RetainAsPublished, s.RetainHandling = vBool(), vBool(), vByteIn("\x00\x01\x02")
			}
			pk.Filters = append(pk.Filters, s)
		}
		if ver == 5 && vChoose(2) == 1 {
			id := vRange(1, 268435455)
			pk.Properties.SubscriptionIdentifier = []int{id}
		}
	case Suback:
		pk.PacketID = vU16()
		pk.ReasonCodes = vBytes(1 + vLen(2))
	case Unsubscribe:
		pk.FixedHeader.Qos = 1
		pk.PacketID = vU16()
		vAssume(pk.PacketID != 0)
		n := 1 + vLen(vParam("F", 2)-1)
		for i := 0; i < n; i++ {
			pk.Filters = append(pk.Filters, Subscription{Filter: vStrIn(1+vLen(L), "ab/+#")})
		}
	case Unsuback:
		pk.PacketID = vU16()
		if ver == 5 {
			pk.ReasonCodes = vBytes(1 + vLen(2))
		}
	case Disconnect, Auth:
		pk.ReasonCode = vByte()
	}
	if ver == 5 && t != Pingreq && t != Pingresp {
		vSymProps(t, &pk.Properties, L)
	}
	orig := pk.Copy(true)
	orig.FixedHeader.Dup = pk.FixedHeader.Dup
	orig.Connect.UsernameFlag, orig.Connect.PasswordFlag = pk.Connect.UsernameFlag, pk.Connect.PasswordFlag
	orig.Connect.Username, orig.Connect.Password = pk.Connect.Username, pk.Connect.Password
	var buf bytes.Buffer
	err := vEncodeType(&pk, t, &buf)
	vAssert("encodes", err == nil)
	var got Packet
	got.ProtocolVersion = ver
	body := vSplit(buf.Bytes(), &got)
	err = vDecodeType(&got, t, body)
	vAssert("decodes", err == nil)
	vPacketEq(t, ver, &orig, &got)
	vReach("end")
}

func VerifC26Connect()     { vC26(Connect) }
func VerifC26Connack()     { vC26(Connack) }
func VerifC26Publish()     { vC26(Publish) }
func VerifC26Puback()      { vC26(Puback) }
func VerifC26Pubrec()      { vC26(Pubrec) }
func VerifC26Pubrel()      { vC26(Pubrel) }
func VerifC26Pubcomp()     { vC26(Pubcomp) }
func VerifC26Subscribe()   { vC26(Subscribe) }
func VerifC26Suback()      { vC26(Suback) }
func VerifC26Unsubscribe() { vC26(Unsubscribe) }
func VerifC26Unsuback()    { vC26(Unsuback) }
func VerifC26Pingreq()     { vC26(Pingreq) }
func VerifC26Pingresp()    { vC26(Pingresp) }
func VerifC26Disconnect()  { vC26(Disconnect) }
func VerifC26Auth()        { vC26(Auth) }

// direction 2: any accepted byte string re-encodes to bytes that decode to an equivalent packet
func vC26Re(t byte) {
	ver := byte(vParam("VER", 5))
	n := vLen(vParam("N", 6))
	b := vBytes(n)
	pk := Packet{ProtocolVersion: ver, FixedHeader: FixedHeader{Type: t, Remaining: n}}
	switch t {
	case Publish:
		pk.FixedHeader.Qos = vByteIn("\x00\x01\x02")
	case Pubrel, Subscribe, Unsubscribe:
		pk.FixedHeader.Qos = 1
	}
	if vDecodeType(&pk, t, b) != nil {
		vReach("rejected")
		return
	}
	// only well-formed packets are in scope of the re-encoding clause
	switch t {
	case Publish:
		vAssume(pk.FixedHeader.Qos == 0 || pk.PacketID != 0)
		vAssume(!pk.Properties.TopicAliasFlag || pk.Properties.TopicAlias != 0)
		// a Response Topic with wildcard characters is a protocol error [MQTT-3.3.2-14], not a well-formed packet
		// (the encoder deliberately leaves such a property out)
		for i := 0; i < len(pk.Properties.ResponseTopic); i++ {
			vAssume(pk.Properties.ResponseTopic[i] != '+' && pk.Properties.ResponseTopic[i] != '#')
		}
		for _, id := range pk.Properties.SubscriptionIdentifier {
			vAssume(id != 0) // a subscription identifier of 0 is a protocol error, not a well-formed packet
		}
	case Connack:
		vAssume(!pk.Properties.MaximumQosFlag || pk.Properties.MaximumQos < 2) // only 0 or 1 are legal values
	case Subscribe, Unsubscribe:
		vAssume(pk.PacketID != 0)
		if t == Subscribe {
			for _, id := range pk.Properties.SubscriptionIdentifier {
				vAssume(id != 0)
			}
		}
	case Connect:
		vAssume(pk.ProtocolVersion == ver)
		vAssume(pk.ReservedBit == 0)
	}
	first := pk.Copy(true)
	first.FixedHeader.Dup = pk.FixedHeader.Dup
	first.Connect.UsernameFlag, first.Connect.PasswordFlag = pk.Connect.UsernameFlag, pk.Connect.PasswordFlag
	first.Connect.Username, first.Connect.Password = pk.Connect.Username, pk.Connect.Password
	pk.Mods.AllowResponseInfo = true
	var buf bytes.Buffer
	err := vEncodeType(&pk, t, &buf)
	vAssert("re-encodes", err == nil)
	var got Packet
	got.ProtocolVersion = ver
	body := vSplit(buf.Bytes(), &got)
	err = vDecodeType(&got, t, body)
	vAssert("re-decodes", err == nil)
	vPacketEq(t, ver, &first, &got)
	vReach("accepted")
}

func VerifC26ReConnect()     { vC26Re(Connect) }
func VerifC26ReConnack()     { vC26Re(Connack) }
func VerifC26RePublish()     { vC26Re(Publish) }
func VerifC26RePuback()      { vC26Re(Puback) }
func VerifC26RePubrel()      { vC26Re(Pubrel) }
func VerifC26ReSubscribe()   { vC26Re(Subscribe) }
func VerifC26ReSuback()      { vC26Re(Suback) }
func VerifC26ReUnsubscribe() { vC26Re(Unsubscribe) }
func VerifC26ReUnsuback()    { vC26Re(Unsuback) }
func VerifC26ReDisconnect()  { vC26Re(Disconnect) }
func VerifC26ReAuth()        { vC26Re(Auth) }
