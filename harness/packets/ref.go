package packets

// Reference encoders written from the MQTT specification text (not from the code under test).

func rU16(v uint16) []byte { return []byte{byte(v >> 8), byte(v)} }
func rU32(v uint32) []byte { return []byte{byte(v >> 24), byte(v >> 16), byte(v >> 8), byte(v)} }
func rBin(b []byte) []byte { return append(rU16(uint16(len(b))), b...) }
func rStr(s string) []byte { return rBin([]byte(s)) }

// rVarint: minimal variable byte integer for v < 2^28 (MQTT 1.5.5)
func rVarint(v int) []byte {
	if v < 128 {
		return []byte{byte(v)}
	}
	if v < 16384 {
		return []byte{byte(v&127) | 128, byte(v >> 7)}
	}
	if v < 2097152 {
		return []byte{byte(v&127) | 128, byte((v>>7)&127) | 128, byte(v >> 14)}
	}
	return []byte{byte(v&127) | 128, byte((v>>7)&127) | 128, byte((v>>14)&127) | 128, byte(v >> 21)}
}

func rCat(parts ...[]byte) []byte {
	var out []byte
	for _, p := range parts {
		out = append(out, p...)
	}
	return out
}

// rPermute concatenates the encoded properties in the k-th order (k < n!), n <= 3.
func rPermute(props [][]byte, k int) []byte {
	n := len(props)
	switch n {
	case 0:
		return nil
	case 1:
		return props[0]
	case 2:
		if k == 0 {
			return rCat(props[0], props[1])
		}
		return rCat(props[1], props[0])
	}
	orders := [6][3]int{{0, 1, 2}, {0, 2, 1}, {1, 0, 2}, {1, 2, 0}, {2, 0, 1}, {2, 1, 0}}
	o := orders[k]
	return rCat(props[o[0]], props[o[1]], props[o[2]])
}

func rFact(n int) int {
	f := 1
	for i := 2; i <= n; i++ {
		f *= i
	}
	return f
}

func vASCII(n int) string { return vStrIn(n, "abc/") }
