package config

import (
	mqtt "github.com/mochi-mqtt/server/v2"
	"github.com/mochi-mqtt/server/v2/hooks/storage"
	"github.com/mochi-mqtt/server/v2/hooks/storage/badger"
	"github.com/mochi-mqtt/server/v2/hooks/storage/bolt"
	"github.com/mochi-mqtt/server/v2/hooks/storage/pebble"
	"github.com/mochi-mqtt/server/v2/hooks/storage/redis"
	"github.com/mochi-mqtt/server/v2/packets"
	"github.com/mochi-mqtt/server/v2/system"
)

// C22: for any sequence of storage hook events the four bundled back ends return the same clients,
// subscriptions, retained messages, in-flight messages and system info when read back, up to ordering.
// The same solver-chosen events with the same symbolic arguments are delivered to all four hooks (each
// on its own abstract store); equal-in => equal-out for every event gives equality after any sequence.

type vStoreHook interface {
	mqtt.Hook
}

type vEvent struct {
	kind   int
	cid    int
	expire bool
	takeov bool
	filter int
	topic  int
	r      int64
	pid    uint16
	sei    uint32
	qos    byte
	// symbolic properties of the packets / subscriptions / clients handed to the hooks
	alias  uint16
	mexp   uint32
	pfmt   byte
	pfmtF  bool
	subID  int
	rh     byte
	nl     bool
	rap    bool
	dup    bool
	origin int
	rm     uint16
	clean  bool
	ver    byte
}

// vDrawEvent: a storage event with solver-chosen arguments. Choices that fork the exploration (kind, client,
// filter, topic, retain result) are drawn only for the kinds that use them; the other arguments are symbolic.
func vDrawEvent() vEvent {
	e := vEvent{kind: vChoose(12), cid: vChoose(2)}
	e.pid, e.sei, e.alias, e.mexp, e.pfmt, e.rm = vU16(), vU32(), vU16(), vU32(), vByte(), vU16()
	e.subID = int(vU16())
	e.expire, e.takeov, e.pfmtF, e.nl, e.rap, e.dup, e.clean = vBool(), vBool(), vBool(), vBool(), vBool(), vBool(), vBool()
	e.qos, e.rh, e.ver = vByteIn("\x00\x01\x02"), vByteIn("\x00\x01\x02"), vByteIn("\x04\x05")
	switch e.kind {
	case 2, 3:
		e.filter = vChoose(2)
	case 4:
		e.topic, e.origin = vChoose(2), vChoose(2)
		e.r = []int64{1, -1, 0}[vChoose(3)]
	case 5:
		e.topic, e.origin = vChoose(2), vChoose(2)
	case 9:
		e.topic = vChoose(2)
	}
	return e
}

func vMsgProps(e vEvent) packets.Properties {
	return packets.Properties{TopicAlias: e.alias, TopicAliasFlag: e.alias != 0, MessageExpiryInterval: e.mexp, PayloadFormat: e.pfmt, PayloadFormatFlag: e.pfmtF,
		ContentType: "ct", ResponseTopic: "rt", CorrelationData: []byte{9}, SubscriptionIdentifier: []int{e.subID}, User: []packets.UserProperty{{Key: "k", Val: "v"}}}
}

func vClients() []*mqtt.Client {
	var out []*mqtt.Client
	for _, id := range []string{"a", "b"} {
		cl := &mqtt.Client{ID: id}
		cl.Net.Listener = "t1"
		cl.Properties.ProtocolVersion = 5
		out = append(out, cl)
	}
	return out
}

func vApply(h mqtt.Hook, cls []*mqtt.Client, e vEvent) {
	cl := cls[e.cid]
	filters := []string{"x", "x/+"}
	topics := []string{"r", "r/s"}
	switch e.kind {
	case 0:
		cl.Properties.Props.SessionExpiryInterval = e.sei
		cl.Properties.Props.ReceiveMaximum = e.rm
		cl.Properties.Clean = e.clean
		cl.Properties.ProtocolVersion = e.ver
		cl.Properties.Username = []byte("u")
		h.OnSessionEstablished(cl, packets.Packet{})
	case 1:
		cl.Properties.Props.SessionExpiryInterval = e.sei // e.g. changed by the DISCONNECT packet
		if e.takeov {
			cl.Stop(packets.ErrSessionTakenOver)
		}
		h.OnDisconnect(cl, nil, e.expire)
	case 2:
		h.OnSubscribed(cl, packets.Packet{Filters: packets.Subscriptions{{Filter: filters[e.filter], Qos: e.qos, Identifier: e.subID, RetainHandling: e.rh, NoLocal: e.nl, RetainAsPublished: e.rap}}}, []byte{e.qos})
	case 3:
		h.OnUnsubscribed(cl, packets.Packet{Filters: packets.Subscriptions{{Filter: filters[e.filter]}}})
	case 4:
		h.OnRetainMessage(cl, packets.Packet{FixedHeader: packets.FixedHeader{Type: packets.Publish, Retain: true, Qos: e.qos, Dup: e.dup}, TopicName: topics[e.topic], Payload: []byte{1}, Created: 5, Origin: []string{"a", "b"}[e.origin], Properties: vMsgProps(e)}, e.r)
	case 5:
		h.OnQosPublish(cl, packets.Packet{FixedHeader: packets.FixedHeader{Type: packets.Publish, Qos: 1, Dup: e.dup}, TopicName: topics[e.topic], Payload: []byte{2}, PacketID: e.pid, Created: 6, Origin: []string{"a", "b"}[e.origin], Properties: vMsgProps(e)}, 6, 0)
	case 6:
		h.OnQosComplete(cl, packets.Packet{PacketID: e.pid})
	case 7:
		h.OnQosDropped(cl, packets.Packet{PacketID: e.pid})
	case 8:
		h.OnClientExpired(cl)
	case 9:
		h.OnRetainedExpired(topics[e.topic])
	case 10:
		h.OnWillSent(cl, packets.Packet{})
	case 11:
		h.OnSysInfoTick(&system.Info{Version: "v", Retained: int64(e.pid)})
	}
}

type vSnapshot struct {
	clients  []storage.Client
	subs     []storage.Subscription
	retained []storage.Message
	inflight []storage.Message
	sys      storage.SystemInfo
}

func vSnap(h mqtt.Hook) vSnapshot {
	var s vSnapshot
	s.clients, _ = h.StoredClients()
	s.subs, _ = h.StoredSubscriptions()
	s.retained, _ = h.StoredRetainedMessages()
	s.inflight, _ = h.StoredInflightMessages()
	s.sys, _ = h.StoredSysInfo()
	return s
}

func vSameClients(a, b []storage.Client) bool {
	if len(a) != len(b) {
		return false
	}
	for _, x := range a {
		found := false
		for _, y := range b {
			if x.ID == y.ID && x.Properties.SessionExpiryInterval == y.Properties.SessionExpiryInterval && x.ProtocolVersion == y.ProtocolVersion && x.Clean == y.Clean && x.Listener == y.Listener &&
				x.Properties.ReceiveMaximum == y.Properties.ReceiveMaximum && string(x.Username) == string(y.Username) && x.Remote == y.Remote {
				found = true
			}
		}
		if !found {
			return false
		}
	}
	return true
}

func vSameSubs(a, b []storage.Subscription) bool {
	if len(a) != len(b) {
		return false
	}
	for _, x := range a {
		found := false
		for _, y := range b {
			if x.Client == y.Client && x.Filter == y.Filter && x.Qos == y.Qos && x.Identifier == y.Identifier && x.RetainHandling == y.RetainHandling && x.NoLocal == y.NoLocal && x.RetainAsPublished == y.RetainAsPublished {
				found = true
			}
		}
		if !found {
			return false
		}
	}
	return true
}

func vSameProps(x, y storage.MessageProperties) bool {
	if len(x.SubscriptionIdentifier) != len(y.SubscriptionIdentifier) || len(x.User) != len(y.User) {
		return false
	}
	for i := range x.SubscriptionIdentifier {
		if x.SubscriptionIdentifier[i] != y.SubscriptionIdentifier[i] {
			return false
		}
	}
	for i := range x.User {
		if x.User[i] != y.User[i] {
			return false
		}
	}
	return string(x.CorrelationData) == string(y.CorrelationData) && x.ContentType == y.ContentType && x.ResponseTopic == y.ResponseTopic &&
		x.MessageExpiryInterval == y.MessageExpiryInterval && x.TopicAlias == y.TopicAlias && x.PayloadFormat == y.PayloadFormat && x.PayloadFormatFlag == y.PayloadFormatFlag
}

func vSameMsgs(a, b []storage.Message) bool {
	if len(a) != len(b) {
		return false
	}
	for _, x := range a {
		found := false
		for _, y := range b {
			if x.TopicName == y.TopicName && x.Client == y.Client && x.PacketID == y.PacketID && x.FixedHeader == y.FixedHeader && x.Created == y.Created && x.Sent == y.Sent && string(x.Payload) == string(y.Payload) && x.Origin == y.Origin && vSameProps(x.Properties, y.Properties) {
				found = true
			}
		}
		if !found {
			return false
		}
	}
	return true
}

func VerifC22Step() {
	hooks := []mqtt.Hook{bolt.VerifNewHook(), badger.VerifNewHook(), pebble.VerifNewHook(), redis.VerifNewHook()}
	names := []string{"bolt", "badger", "pebble", "redis"}
	n := vParam("EVENTS", 2)
	var evs []vEvent
	for i := 0; i < n; i++ {
		evs = append(evs, vDrawEvent())
	}
	var snaps []vSnapshot
	for _, h := range hooks {
		cls := vClients() // every back end gets its own, equal, client objects
		for _, e := range evs {
			vApply(h, cls, e)
		}
		snaps = append(snaps, vSnap(h))
	}
	for i := 1; i < 4; i++ {
		_ = names
		switch i {
		case 1:
			vAssert("bolt-and-badger-agree-on-clients", vSameClients(snaps[0].clients, snaps[i].clients))
			vAssert("bolt-and-badger-agree-on-subscriptions", vSameSubs(snaps[0].subs, snaps[i].subs))
			vAssert("bolt-and-badger-agree-on-retained", vSameMsgs(snaps[0].retained, snaps[i].retained))
			vAssert("bolt-and-badger-agree-on-inflight", vSameMsgs(snaps[0].inflight, snaps[i].inflight))
			vAssert("bolt-and-badger-agree-on-sysinfo", snaps[0].sys.Version == snaps[i].sys.Version && snaps[0].sys.Retained == snaps[i].sys.Retained)
		case 2:
			vAssert("bolt-and-pebble-agree-on-clients", vSameClients(snaps[0].clients, snaps[i].clients))
			vAssert("bolt-and-pebble-agree-on-subscriptions", vSameSubs(snaps[0].subs, snaps[i].subs))
			vAssert("bolt-and-pebble-agree-on-retained", vSameMsgs(snaps[0].retained, snaps[i].retained))
			vAssert("bolt-and-pebble-agree-on-inflight", vSameMsgs(snaps[0].inflight, snaps[i].inflight))
			vAssert("bolt-and-pebble-agree-on-sysinfo", snaps[0].sys.Version == snaps[i].sys.Version && snaps[0].sys.Retained == snaps[i].sys.Retained)
		case 3:
			vAssert("bolt-and-redis-agree-on-clients", vSameClients(snaps[0].clients, snaps[i].clients))
			vAssert("bolt-and-redis-agree-on-subscriptions", vSameSubs(snaps[0].subs, snaps[i].subs))
			vAssert("bolt-and-redis-agree-on-retained", vSameMsgs(snaps[0].retained, snaps[i].retained))
			vAssert("bolt-and-redis-agree-on-inflight", vSameMsgs(snaps[0].inflight, snaps[i].inflight))
			vAssert("bolt-and-redis-agree-on-sysinfo", snaps[0].sys.Version == snaps[i].sys.Version && snaps[0].sys.Retained == snaps[i].sys.Retained)
		}
	}
	vReach("end")
}
